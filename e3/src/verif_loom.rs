//! Shims that route the atomics and the payload cells of the real `boxcar.rs` through loom.
//!
//! * `AtomicBool` / `AtomicPtr` / `AtomicU64` wrap loom's atomics (every load/store/RMW is a loom
//!   operation with its declared ordering); a shadow copy serves `get_mut()`, which loom's types
//!   do not offer (only used with exclusive access in `Drop`).
//! * `UnsafeCell<T>` is layout-transparent; `get()` reports a read (inside `Entry::read`, see
//!   `read_scope`) or a write of *that address* to a per-execution side table of
//!   `loom::cell::UnsafeCell<()>` trackers, so loom checks happens-before for the payload. The
//!   tracker cannot live in place because bucket memory is raw-allocated and never constructed.
//! * `bucket_init` / `bucket_use` / `bucket_dealloc` track the non-atomic initialisation of a
//!   bucket's `active` flags against later uses of the bucket.

use std::cell::{Cell, RefCell};
use std::collections::HashMap;

pub use std::sync::atomic::Ordering;

thread_local! {
    /// set by a successful publication of a pointer (compare_exchange / store / swap), cleared by
    /// the thread's next shim operation: a flag that is *created* right after a publication is
    /// initialised in memory other threads can already reach, so the creation is made a
    /// scheduling point (the plain writes of an initialisation are invisible to loom otherwise)
    static JUST_PUBLISHED: Cell<bool> = const { Cell::new(false) };
    static TABLE: RefCell<HashMap<usize, loom::cell::UnsafeCell<()>>> = RefCell::new(HashMap::new());
    static BUCKETS: RefCell<HashMap<usize, (usize, loom::cell::UnsafeCell<()>)>> = RefCell::new(HashMap::new());
    static READ_DEPTH: Cell<u32> = const { Cell::new(0) };
}

static TRACKING: std::sync::atomic::AtomicBool = std::sync::atomic::AtomicBool::new(true);

/// C08 explores with payload tracking off (pure value/linearizability oracle, so that a broken
/// index reservation shows up as duplicate indices and not as the data race it also causes);
/// C09 explores with tracking on.
pub fn set_tracking(on: bool) {
    TRACKING.store(on, Ordering::Relaxed);
}
fn tracking() -> bool {
    TRACKING.load(Ordering::Relaxed)
}

/// Must be called at the start of every loom execution.
/// Number of the current execution: every shim flag remembers the execution it was created in,
/// so that an access to a flag that was never initialised in this execution (raw bucket memory,
/// possibly still holding a flag of an earlier execution) is recognised.
static EPOCH: std::sync::atomic::AtomicU64 = std::sync::atomic::AtomicU64::new(1);

pub fn reset() {
    EPOCH.fetch_add(1, std::sync::atomic::Ordering::Relaxed);
    TABLE.with(|t| t.borrow_mut().clear());
    BUCKETS.with(|t| t.borrow_mut().clear());
    READ_DEPTH.with(|d| d.set(0));
}

fn touch(addr: usize, write: bool) {
    if !tracking() {
        return;
    }
    TABLE.with(|t| {
        let mut t = t.borrow_mut();
        let cell = t.entry(addr).or_insert_with(|| loom::cell::UnsafeCell::new(()));
        if write {
            cell.with_mut(|_| ());
        } else {
            cell.with(|_| ());
        }
    });
}

pub struct ReadScope;
impl Drop for ReadScope {
    fn drop(&mut self) {
        READ_DEPTH.with(|d| d.set(d.get() - 1));
    }
}
pub fn read_scope() -> ReadScope {
    READ_DEPTH.with(|d| d.set(d.get() + 1));
    ReadScope
}

pub fn bucket_init(addr: usize, size: usize) {
    if !tracking() {
        return;
    }
    BUCKETS.with(|b| {
        let mut b = b.borrow_mut();
        let cell = loom::cell::UnsafeCell::new(());
        cell.with_mut(|_| ());
        b.insert(addr, (size, cell));
    });
}

pub fn bucket_use(addr: usize) {
    if !tracking() {
        return;
    }
    BUCKETS.with(|b| {
        let b = b.borrow();
        match b.get(&addr) {
            Some((_, cell)) => cell.with(|_| ()),
            None => panic!("use of a bucket that is not allocated (freed or never initialised)"),
        }
    });
}

pub fn bucket_dealloc(addr: usize, size: usize) {
    if !tracking() {
        return;
    }
    BUCKETS.with(|b| {
        let mut b = b.borrow_mut();
        match b.remove(&addr) {
            Some((_, cell)) => cell.with_mut(|_| ()),
            None => panic!("double free of a bucket"),
        }
    });
    // forget the payload trackers inside the freed range (the allocator may reuse the memory)
    TABLE.with(|t| t.borrow_mut().retain(|&a, _| a < addr || a >= addr + size));
}

#[repr(transparent)]
pub struct UnsafeCell<T>(std::cell::UnsafeCell<T>);

impl<T> UnsafeCell<T> {
    #[inline]
    pub fn get(&self) -> *mut T {
        let addr = self as *const _ as usize;
        let reading = READ_DEPTH.with(|d| d.get()) > 0;
        touch(addr, !reading);
        self.0.get()
    }
}

pub struct AtomicBool {
    inner: loom::sync::atomic::AtomicBool,
    shadow: std::cell::UnsafeCell<bool>,
    epoch: u64,
}
unsafe impl Sync for AtomicBool {}
unsafe impl Send for AtomicBool {}
impl AtomicBool {
    pub fn new(v: bool) -> Self {
        if JUST_PUBLISHED.with(|j| j.replace(false)) {
            loom::thread::yield_now();
        }
        AtomicBool {
            inner: loom::sync::atomic::AtomicBool::new(v),
            shadow: std::cell::UnsafeCell::new(v),
            epoch: EPOCH.load(std::sync::atomic::Ordering::Relaxed),
        }
    }
    #[inline]
    fn live(&self) {
        JUST_PUBLISHED.with(|j| j.set(false));
        // read with a volatile load: the memory may be uninitialised
        let e = unsafe { std::ptr::read_volatile(&self.epoch) };
        if e != EPOCH.load(std::sync::atomic::Ordering::Relaxed) {
            panic!("access to a flag that was not initialised (raw or stale bucket memory)");
        }
    }
    pub fn load(&self, o: Ordering) -> bool {
        self.live();
        self.inner.load(o)
    }
    pub fn store(&self, v: bool, o: Ordering) {
        self.live();
        // shadow copy after the operation: loom may switch threads at the operation, not after it
        self.inner.store(v, o);
        unsafe { *self.shadow.get() = v };
    }
    pub fn get_mut(&mut self) -> &mut bool {
        self.live();
        self.shadow.get_mut()
    }
    // the rest of the std API, so that a change of the library that uses another operation
    // still builds under loom (threads run one at a time, so the shadow copy written right
    // after the operation follows the modification order)
    pub fn swap(&self, v: bool, o: Ordering) -> bool {
        self.live();
        let r = self.inner.swap(v, o);
        unsafe { *self.shadow.get() = v };
        r
    }
    pub fn compare_exchange(&self, current: bool, new: bool, success: Ordering, failure: Ordering) -> Result<bool, bool> {
        self.live();
        let r = self.inner.compare_exchange(current, new, success, failure);
        if r.is_ok() {
            unsafe { *self.shadow.get() = new };
        }
        r
    }
    pub fn compare_exchange_weak(&self, current: bool, new: bool, success: Ordering, failure: Ordering) -> Result<bool, bool> {
        self.compare_exchange(current, new, success, failure)
    }
    pub fn fetch_or(&self, v: bool, o: Ordering) -> bool {
        self.live();
        let r = self.inner.fetch_or(v, o);
        unsafe { *self.shadow.get() = r | v };
        r
    }
    pub fn fetch_and(&self, v: bool, o: Ordering) -> bool {
        self.live();
        let r = self.inner.fetch_and(v, o);
        unsafe { *self.shadow.get() = r & v };
        r
    }
    pub fn into_inner(self) -> bool {
        self.shadow.into_inner()
    }
}

pub struct AtomicPtr<T> {
    inner: loom::sync::atomic::AtomicPtr<T>,
    shadow: std::cell::UnsafeCell<*mut T>,
}
unsafe impl<T> Sync for AtomicPtr<T> {}
unsafe impl<T> Send for AtomicPtr<T> {}
impl<T> AtomicPtr<T> {
    pub fn new(p: *mut T) -> Self {
        AtomicPtr {
            inner: loom::sync::atomic::AtomicPtr::new(p),
            shadow: std::cell::UnsafeCell::new(p),
        }
    }
    pub fn load(&self, o: Ordering) -> *mut T {
        JUST_PUBLISHED.with(|j| j.set(false));
        self.inner.load(o)
    }
    pub fn compare_exchange(
        &self,
        current: *mut T,
        new: *mut T,
        success: Ordering,
        failure: Ordering,
    ) -> Result<*mut T, *mut T> {
        let r = self.inner.compare_exchange(current, new, success, failure);
        if r.is_ok() {
            unsafe { *self.shadow.get() = new };
        }
        JUST_PUBLISHED.with(|j| j.set(r.is_ok()));
        r
    }
    pub fn get_mut(&mut self) -> &mut *mut T {
        self.shadow.get_mut()
    }
    pub fn store(&self, p: *mut T, o: Ordering) {
        self.inner.store(p, o);
        unsafe { *self.shadow.get() = p };
        JUST_PUBLISHED.with(|j| j.set(true));
    }
    pub fn swap(&self, p: *mut T, o: Ordering) -> *mut T {
        let r = self.inner.swap(p, o);
        unsafe { *self.shadow.get() = p };
        r
    }
    pub fn compare_exchange_weak(&self, current: *mut T, new: *mut T, success: Ordering, failure: Ordering) -> Result<*mut T, *mut T> {
        self.compare_exchange(current, new, success, failure)
    }
    pub fn into_inner(self) -> *mut T {
        self.shadow.into_inner()
    }
}

pub struct AtomicU64(loom::sync::atomic::AtomicU64);
impl AtomicU64 {
    pub fn new(v: u64) -> Self {
        AtomicU64(loom::sync::atomic::AtomicU64::new(v))
    }
    pub fn load(&self, o: Ordering) -> u64 {
        self.0.load(o)
    }
    pub fn fetch_add(&self, v: u64, o: Ordering) -> u64 {
        self.0.fetch_add(v, o)
    }
    pub fn store(&self, v: u64, o: Ordering) {
        self.0.store(v, o)
    }
    pub fn swap(&self, v: u64, o: Ordering) -> u64 {
        self.0.swap(v, o)
    }
    pub fn fetch_sub(&self, v: u64, o: Ordering) -> u64 {
        self.0.fetch_sub(v, o)
    }
    pub fn fetch_max(&self, v: u64, o: Ordering) -> u64 {
        self.0.fetch_max(v, o)
    }
    pub fn fetch_min(&self, v: u64, o: Ordering) -> u64 {
        self.0.fetch_min(v, o)
    }
    pub fn compare_exchange(&self, current: u64, new: u64, success: Ordering, failure: Ordering) -> Result<u64, u64> {
        self.0.compare_exchange(current, new, success, failure)
    }
    pub fn compare_exchange_weak(&self, current: u64, new: u64, success: Ordering, failure: Ordering) -> Result<u64, u64> {
        self.0.compare_exchange(current, new, success, failure)
    }
    pub fn fetch_update<F: FnMut(u64) -> Option<u64>>(&self, set: Ordering, fetch: Ordering, f: F) -> Result<u64, u64> {
        self.0.fetch_update(set, fetch, f)
    }
}
