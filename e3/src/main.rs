//! E3 — loom on the real `/repo/src/boxcar.rs` (C08 linearizability oracle, C09 data-race freedom).
//!
//! usage: e3 <C08|C09> <quick|thorough>     parent: runs every body in a child process
//!        e3 body <name> <bound|none>       child: explores one body, prints a JSON line
//!
//! The file under test is compiled into this crate unmodified (`#[path]`); under
//! `cfg(nucleo_verif_loom)` its atomics and payload cells resolve to the shims in `verif_loom`.

#![allow(dead_code)]

#[path = "/repo/src/boxcar.rs"]
mod boxcar;
mod verif_loom;

pub use nucleo_matcher::Utf32String;

/// Same shape as `nucleo::Item` (boxcar.rs refers to `crate::Item`).
pub struct Item<'a, T> {
    pub data: &'a T,
    pub matcher_columns: &'a [Utf32String],
}

use std::collections::BTreeSet;
use std::sync::atomic::{AtomicU64 as StdU64, Ordering as O};
use std::sync::Mutex;

use common::{json, machinery_failure, Report, Value};
use loom::sync::atomic::AtomicUsize as LAtomicUsize;
use loom::sync::Arc;

type V = boxcar::Vec<D>;

/// Item type of the bodies: an id whose creations and destructions are counted (plain std
/// atomics outside loom's model: the bookkeeping is not part of what is explored). At the end of
/// every execution each item that was created must have been destroyed exactly once.
pub struct D(u64);
const IDS: usize = 2048;
static MADE: [std::sync::atomic::AtomicU32; IDS] = [const { std::sync::atomic::AtomicU32::new(0) }; IDS];
static DROPPED: [std::sync::atomic::AtomicU32; IDS] = [const { std::sync::atomic::AtomicU32::new(0) }; IDS];
fn d(id: u64) -> D {
    MADE[id as usize % IDS].fetch_add(1, O::Relaxed);
    D(id)
}
impl Drop for D {
    fn drop(&mut self) {
        DROPPED[self.0 as usize % IDS].fetch_add(1, O::Relaxed);
    }
}
fn reset_drops() {
    for i in 0..IDS {
        MADE[i].store(0, O::Relaxed);
        DROPPED[i].store(0, O::Relaxed);
    }
}
/// called after the vector (last handle) is gone
fn drop_accounting() {
    // only the C11 run judges it (there the value oracle is off); in the C08 / C09 runs the first
    // failing execution must be one of their own kind
    if !std::env::var("E3_MODE").map_or(false, |v| v == "c11") {
        return;
    }
    for i in 0..IDS {
        let (m, k) = (MADE[i].load(O::Relaxed), DROPPED[i].load(O::Relaxed));
        assert!(m == k, "drop accounting: item {i} was created {m} times and destroyed {k} times after the vector was dropped");
    }
}

static EXECUTIONS: StdU64 = StdU64::new(0);
static OUTCOMES: Mutex<BTreeSet<String>> = Mutex::new(BTreeSet::new());

/// In the C11 run of the bodies (E3_MODE=c11) only the drop accounting speaks: the value oracle
/// is switched off, so that an execution that violates it still reaches the accounting.
fn c11_mode() -> bool {
    static M: std::sync::OnceLock<bool> = std::sync::OnceLock::new();
    // (the C09 run also leaves the value oracle to the C08 run: loom stops at the first failing
    // execution, and that must be a race report if the change under test has one)
    *M.get_or_init(|| std::env::var("E3_MODE").map_or(false, |v| v == "c11" || v == "c09"))
}
macro_rules! oracle {
    ($($t:tt)*) => {
        if !c11_mode() {
            assert!($($t)*);
        }
    };
}
macro_rules! oracle_eq {
    ($($t:tt)*) => {
        if !c11_mode() {
            assert_eq!($($t)*);
        }
    };
}
fn soft<T>(o: Option<T>, msg: &str) -> Option<T> {
    if o.is_none() && !c11_mode() {
        panic!("{msg}");
    }
    o
}

fn fill(id: &D, cols: &mut [Utf32String]) {
    let id = id.0;
    for (k, c) in cols.iter_mut().enumerate() {
        *c = Utf32String::from(format!("{id}:{k}"));
    }
}

/// A looked-up item must be complete: value and every column as its fill callback wrote them.
fn check_item(item: &Item<'_, D>, cols: u32) -> u64 {
    let id = item.data.0;
    oracle_eq!(item.matcher_columns.len(), cols as usize, "wrong number of columns");
    for (k, c) in item.matcher_columns.iter().enumerate() {
        oracle_eq!(c.to_string(), format!("{id}:{k}"), "torn or foreign item: column {k} of item {id}");
    }
    id
}

fn outcome(s: String) {
    OUTCOMES.lock().unwrap().insert(s);
}

const NONE: usize = usize::MAX;

// -------------------------------------------------------------------------------------- bodies

/// B1: T1 pushes twice, T2 pushes once and announces its index through a release store; the main
/// thread reads concurrently.
fn body_push_push_reader(cap: u32, cols: u32) {
    verif_loom::reset();
    reset_drops();
    EXECUTIONS.fetch_add(1, O::Relaxed);
    let v: Arc<V> = Arc::new(V::with_capacity(cap, cols));
    let announced = Arc::new(LAtomicUsize::new(NONE));
    let t1 = {
        let v = v.clone();
        loom::thread::spawn(move || {
            let a = v.push(d(1), fill);
            // own push has returned: the item must be there, complete, from now on
            if let Some(it) = soft(v.get(a), "own completed push not visible") {
                oracle_eq!(check_item(&it, cols), 1);
            }
            let b = v.push(d(2), fill);
            oracle!(b > a, "indices of one thread's consecutive pushes must increase");
            oracle!(v.count() > b, "count smaller than a completed push's index + 1");
            (a, b)
        })
    };
    let t2 = {
        let v = v.clone();
        let announced = announced.clone();
        loom::thread::spawn(move || {
            let c = v.push(d(3), fill);
            announced.store(c as usize, O::Release);
            c
        })
    };
    // concurrent reader
    let mut seen = [0u64; 4];
    let c1 = v.count();
    let ann = announced.load(O::Acquire);
    if ann != NONE {
        // T2's push happened-before this point
        if let Some(it) = soft(v.get(ann as u32), "announced (completed) push not visible") {
            oracle_eq!(check_item(&it, cols), 3, "announced index holds another item");
            // the unchecked accessor is legal for an index whose item this thread has seen
            let it = unsafe { v.get_unchecked(ann as u32) };
            oracle_eq!(check_item(&it, cols), 3, "get_unchecked returns another item than get");
        }
        oracle!(v.count() as usize > ann, "count smaller than a completed push's index + 1");
    }
    for i in 0..4u32 {
        if let Some(it) = v.get(i) {
            seen[i as usize] = check_item(&it, cols);
        }
    }
    oracle_eq!(seen[3], 0, "lookup returned an item for an index nobody was assigned");
    let c2 = v.count();
    oracle!(c1 <= c2 && c2 <= 3, "count not monotone or too large: {c1} {c2}");
    let (a, b) = t1.join().unwrap();
    let c = t2.join().unwrap();
    let mut idx = vec![a, b, c];
    idx.sort();
    oracle_eq!(idx, vec![0, 1, 2], "indices are not distinct and gap-free");
    oracle_eq!(v.count(), 3);
    for (i, want) in [(a, 1u64), (b, 2), (c, 3)] {
        let Some(it) = soft(v.get(i), "completed push lost") else {
            continue;
        };
        oracle_eq!(check_item(&it, cols), want, "index {i} holds another item than its push wrote");
        // an item seen earlier must be the same item now
        if seen[i as usize] != 0 {
            oracle_eq!(seen[i as usize], want, "item at index {i} changed");
        }
    }
    oracle!(v.get(3).is_none());
    outcome(format!("a={a} b={b} c={c} seen={seen:?} c1={c1} c2={c2} ann={}", ann != NONE));
    // dropping the vector (last Arc) must be ordered after every writer
    drop(v);
    drop_accounting();
}

/// B2: prefill up to just before a bucket boundary, then push ∥ extend(5) ∥ snapshot reader.
fn body_boundary(prefill: u32, ext: u32, over_report: bool) {
    body_boundary_(prefill, ext, over_report, false)
}

/// B2u: as B2, but the batch iterator UNDER-reports its length by one: the call must refuse the
/// surplus item (it panics) without having written it anywhere - in particular not into the entry
/// the concurrent push reserved.
fn body_underreport(prefill: u32, ext: u32) {
    verif_loom::reset();
    reset_drops();
    EXECUTIONS.fetch_add(1, O::Relaxed);
    let cols = 1;
    let v: Arc<V> = Arc::new(V::with_capacity(1, cols));
    for i in 0..prefill {
        v.push(d(1000 + i as u64), fill);
    }
    let t1 = {
        let v = v.clone();
        loom::thread::spawn(move || {
            let a = v.push(d(1), fill);
            if let Some(it) = soft(v.get(a), "own completed push not visible") {
                oracle_eq!(check_item(&it, cols), 1);
            }
            a
        })
    };
    let t2 = {
        let v = v.clone();
        loom::thread::spawn(move || {
            struct Liar<I>(I, usize);
            impl<I: Iterator> Iterator for Liar<I> {
                type Item = I::Item;
                fn next(&mut self) -> Option<I::Item> {
                    self.0.next()
                }
            }
            impl<I: Iterator> ExactSizeIterator for Liar<I> {
                fn len(&self) -> usize {
                    self.1
                }
            }
            let items: Vec<D> = (0..ext).map(|i| d(10 + i as u64)).collect();
            let r = std::panic::catch_unwind(std::panic::AssertUnwindSafe(|| v.extend(Liar(items.into_iter(), ext as usize - 1), fill)));
            oracle!(r.is_err(), "extend accepted more items than its iterator reported");
        })
    };
    let a = t1.join().unwrap();
    t2.join().unwrap();
    let reserved = prefill + 1 + (ext - 1);
    oracle_eq!(v.count(), reserved, "count differs from the number of reserved indices");
    let mut batch = 0;
    for i in 0..reserved + 2 {
        match v.get(i) {
            None => oracle!(i >= reserved, "a reserved index of an honest prefix is not published"),
            Some(it) => {
                let id = check_item(&it, cols);
                oracle!(i < reserved, "item at an index nobody was assigned");
                if i < prefill {
                    oracle_eq!(id, 1000 + i as u64);
                } else if id == 1 {
                    oracle_eq!(i, a, "pushed item at another index than push returned");
                } else {
                    oracle!(id >= 10 && id < 10 + ext as u64 - 1, "the surplus item of an under-reporting iterator was published");
                    batch += 1;
                }
            }
        }
    }
    oracle_eq!(batch, ext - 1, "items of the reported prefix missing");
    outcome(format!("a={a}"));
    drop(v);
    drop_accounting();
}

fn body_boundary_(prefill: u32, ext: u32, over_report: bool, prefill_by_push: bool) {
    verif_loom::reset();
    reset_drops();
    EXECUTIONS.fetch_add(1, O::Relaxed);
    let cols = 1;
    let v: Arc<V> = Arc::new(V::with_capacity(1, cols));
    if prefill_by_push {
        // (a batch prefill ending at index 28 would itself allocate the next bucket eagerly)
        for i in 0..prefill {
            v.push(d(1000 + i as u64), fill);
        }
    } else {
        v.extend((0..prefill).map(|i| d(1000 + i as u64)).collect::<Vec<_>>().into_iter(), fill);
    }
    let t1 = {
        let v = v.clone();
        loom::thread::spawn(move || {
            let a = v.push(d(1), fill);
            if let Some(it) = soft(v.get(a), "own completed push not visible") {
                oracle_eq!(check_item(&it, cols), 1);
            }
            a
        })
    };
    let t2 = {
        let v = v.clone();
        loom::thread::spawn(move || {
            struct Liar<I>(I, usize);
            impl<I: Iterator> Iterator for Liar<I> {
                type Item = I::Item;
                fn next(&mut self) -> Option<I::Item> {
                    self.0.next()
                }
            }
            impl<I: Iterator> ExactSizeIterator for Liar<I> {
                fn len(&self) -> usize {
                    self.1
                }
            }
            let items: Vec<u64> = (0..ext).map(|i| 10 + i as u64).collect();
            let reported = if over_report { ext as usize + 2 } else { ext as usize };
            let before = v.count();
            v.extend(Liar(items.into_iter().map(d).collect::<Vec<D>>().into_iter(), reported), fill);
            before
        })
    };
    // reader: one pass over a snapshot
    let mut n_some = 0;
    let mut last = None;
    let snap_start = prefill.saturating_sub(3);
    let snap: Vec<(u32, Option<u64>)> = unsafe { v.snapshot(snap_start) }
        .map(|(i, it)| (i, it.map(|it| check_item(&it, cols))))
        .collect();
    let count_after = v.count();
    oracle!(snap_start + snap.len() as u32 <= count_after, "snapshot longer than the count");
    for (pos, (i, it)) in snap.iter().enumerate() {
        oracle_eq!(*i, snap_start + pos as u32, "snapshot indices not consecutive from its start");
        if (*i) < prefill {
            oracle_eq!(*it, Some(1000 + *i as u64), "prefilled item missing or wrong in snapshot");
        }
        if it.is_some() {
            n_some += 1;
            last = Some(*i);
        }
    }
    let a = t1.join().unwrap();
    let _ = t2.join().unwrap();
    let reserved = prefill + 1 + ext + if over_report { 2 } else { 0 };
    oracle_eq!(v.count(), reserved, "count differs from the number of reserved indices");
    // final content: every index below `reserved` is either the right item or a reserved-never-published hole
    let mut ext_start = None;
    let mut holes = 0;
    for i in 0..reserved + 2 {
        match v.get(i) {
            None => {
                oracle!(i >= prefill, "prefilled item lost");
                if i < reserved {
                    holes += 1
                }
            }
            Some(it) => {
                let id = check_item(&it, cols);
                oracle!(i < reserved, "item at an index nobody was assigned");
                if i < prefill {
                    oracle_eq!(id, 1000 + i as u64);
                } else if id == 1 {
                    oracle_eq!(i, a, "pushed item at another index than push returned");
                } else {
                    let k = (id - 10) as u32;
                    let s = i - k;
                    oracle!(ext_start.map_or(true, |e| e == s), "batch items not at consecutive indices");
                    ext_start = Some(s);
                }
            }
        }
    }
    oracle_eq!(holes, if over_report { 2 } else { 0 }, "wrong number of unpublished indices");
    outcome(format!("a={a} ext_start={ext_start:?} snap_len={} some={n_some} last={last:?}", snap.len()));
    drop(v);
    drop_accounting();
}

/// B3: two extends racing to allocate the same bucket, no reader.
fn body_two_extends(prefill: u32, n: u32) {
    verif_loom::reset();
    reset_drops();
    EXECUTIONS.fetch_add(1, O::Relaxed);
    let cols = 1;
    let v: Arc<V> = Arc::new(V::with_capacity(1, cols));
    v.extend((0..prefill).map(|i| d(1000 + i as u64)).collect::<Vec<_>>().into_iter(), fill);
    let hs: Vec<_> = (0..2u64)
        .map(|t| {
            let v = v.clone();
            loom::thread::spawn(move || {
                let items: Vec<u64> = (0..n as u64).map(|i| 100 * (t + 1) + i).collect();
                v.extend(items.into_iter().map(d).collect::<Vec<D>>().into_iter(), fill);
            })
        })
        .collect();
    for h in hs {
        h.join().unwrap();
    }
    oracle_eq!(v.count(), prefill + 2 * n);
    let mut starts = [None, None];
    for i in 0..prefill + 2 * n {
        let Some(it) = soft(v.get(i), "published item missing after join") else {
            continue;
        };
        let id = check_item(&it, cols);
        if i < prefill {
            oracle_eq!(id, 1000 + i as u64);
        } else {
            let t = (id / 100 - 1) as usize;
            let k = (id % 100) as u32;
            let s = i - k;
            oracle!(starts[t].map_or(true, |e| e == s), "batch not consecutive");
            starts[t] = Some(s);
        }
    }
    oracle!(v.get(prefill + 2 * n).is_none());
    outcome(format!("starts={starts:?}"));
    drop(v);
    drop_accounting();
}

fn run_body(name: &str) {
    match name {
        "push-push-reader" => body_push_push_reader(1, 1),
        "push-push-reader-cap0-2cols" => body_push_push_reader(0, 2),
        "push-push-reader-cap40" => body_push_push_reader(40, 1),
        "boundary-push-extend5-snapshot" => body_boundary(27, 5, false),
        // prefill 28: the push that gets index 28 allocates bucket 1 eagerly, the batch crosses
        // into that bucket (allocated by the other thread) at index 32
        "boundary28-push-extend5-snapshot" => body_boundary_(28, 5, false, true),
        "boundary-push-extend-overreport-snapshot" => body_boundary(27, 4, true),
        "boundary-push-extend2-snapshot@30" => body_boundary(30, 2, false),
        "push-underreport3" => body_underreport(2, 3),
        "boundary-push-underreport4" => body_underreport(27, 4),
        "two-extends-same-bucket" => body_two_extends(27, 6),
        "two-extends-small" => body_two_extends(30, 2),
        _ => machinery_failure(&format!("unknown body {name}")),
    }
}

const BODIES_QUICK: &[(&str, Option<usize>)] = &[
    ("push-push-reader", Some(3)),
    ("push-push-reader-cap0-2cols", Some(3)),
    ("boundary-push-extend5-snapshot", Some(3)),
    ("boundary28-push-extend5-snapshot", Some(3)),
    ("boundary-push-extend-overreport-snapshot", Some(3)),
    ("two-extends-small", None),
    ("two-extends-same-bucket", None),
    ("push-underreport3", None),
    ("boundary-push-underreport4", Some(3)),
];
const BODIES_THOROUGH: &[(&str, Option<usize>)] = &[
    ("push-push-reader", None),
    ("push-push-reader-cap0-2cols", Some(4)),
    ("push-push-reader-cap40", Some(4)),
    ("boundary-push-extend2-snapshot@30", Some(4)),
    ("boundary-push-extend5-snapshot", Some(4)),
    ("boundary28-push-extend5-snapshot", Some(4)),
    ("boundary-push-extend-overreport-snapshot", Some(4)),
    ("two-extends-small", None),
    ("two-extends-same-bucket", None),
    ("push-underreport3", None),
    ("boundary-push-underreport4", Some(4)),
];

fn child(name: &str, bound: Option<usize>) -> ! {
    verif_loom::set_tracking(std::env::var("E3_TRACKING").map_or(true, |v| v != "0"));
    let mut b = loom::model::Builder::new();
    b.preemption_bound = bound;
    b.max_branches = 1_000_000;
    let name_owned = name.to_owned();
    let start = std::time::Instant::now();
    b.check(move || run_body(&name_owned));
    let outcomes = OUTCOMES.lock().unwrap();
    println!(
        "{}",
        json!({"body": name, "preemption_bound": bound, "executions": EXECUTIONS.load(O::Relaxed), "distinct_outcomes": outcomes.len(),
               "sample_outcomes": outcomes.iter().take(3).collect::<Vec<_>>(), "wall_s": start.elapsed().as_secs_f64()})
    );
    std::process::exit(0)
}

fn classify(stderr: &str) -> (&'static str, &'static str) {
    // (property the failure belongs to, class)
    if stderr.contains("drop accounting:") {
        return ("C11", "drop_accounting");
    }
    if stderr.contains("Causality violation") || stderr.contains("concurrent") || stderr.contains("Concurrent") {
        ("C09", "causality_violation")
    } else if stderr.contains("access to a flag that was not initialised") {
        ("C09", "uninitialised_flag")
    } else if stderr.contains("use of a bucket that is not allocated") || stderr.contains("double free of a bucket") {
        ("C09", "bucket_lifetime")
    } else if stderr.contains("deadlock") {
        ("C08", "deadlock")
    } else {
        ("C08", "oracle")
    }
}

fn parent(id: &str, tier: &str) -> ! {
    let mut rep = Report::new(id, tier);
    let bodies = if rep.is_thorough() { BODIES_THOROUGH } else { BODIES_QUICK };
    let exe = std::env::current_exe().unwrap_or_else(|_| machinery_failure("current_exe"));
    let results: Vec<(usize, std::process::Output)> = std::thread::scope(|s| {
        let hs: Vec<_> = bodies
            .iter()
            .enumerate()
            .map(|(i, (name, bound))| {
                let exe = exe.clone();
                s.spawn(move || {
                    let out = std::process::Command::new(&exe)
                        .env("E3_TRACKING", if id == "C09" { "1" } else { "0" })
                        .env("E3_MODE", if id == "C09" { "c09" } else { "c08" })
                        .args(["body", name, &bound.map_or("none".to_owned(), |b| b.to_string())])
                        .output()
                        .unwrap_or_else(|_| machinery_failure("cannot spawn loom child"));
                    (i, out)
                })
            })
            .collect();
        hs.into_iter().map(|h| h.join().unwrap()).collect()
    });
    let mut bodies_json = Vec::new();
    let mut all_unbounded = true;
    for (i, out) in results {
        let (name, bound) = bodies[i];
        let stdout = String::from_utf8_lossy(&out.stdout).to_string();
        let stderr = String::from_utf8_lossy(&out.stderr).to_string();
        rep.acc.evaluations += 1;
        if out.status.success() {
            let v: Value = serde_json::from_str(stdout.lines().last().unwrap_or("")).unwrap_or(Value::Null);
            let ex = v["executions"].as_u64().unwrap_or(0);
            if ex == 0 {
                machinery_failure(&format!("loom child {name} reported no executions"));
            }
            rep.acc.states += ex;
            rep.acc.transitions += ex;
            rep.acc.traces += ex;
            rep.acc.nontrivial += v["distinct_outcomes"].as_u64().unwrap_or(0);
            rep.acc.outcome(&format!("{name}: {} outcomes", v["distinct_outcomes"]));
            rep.acc.sample(|| v.clone());
            if bound.is_some() {
                all_unbounded = false;
            }
            bodies_json.push(v);
        } else {
            let (prop, class) = classify(&stderr);
            let msg: String = stderr
                .lines()
                .filter(|l| l.contains("panicked") || l.contains("violation") || l.contains("assert") || l.contains("left") || l.contains("right") || l.contains(':'))
                .take(12)
                .collect::<Vec<_>>()
                .join(" | ");
            if stderr.contains("exceeded the maximum number of branches") || stderr.contains("Model exceeded maximum number of branches") {
                machinery_failure(&format!("loom body {name} exceeded the branch cap: {msg}"));
            }
            // a failure belongs to the check of its property; the other check only notes it
            if prop == id {
                rep.acc.violation(
                    &format!("{id}/{name}/{class}"),
                    &format!("loom found an execution of body {name} that violates {id}: {class}"),
                    || json!({"body": name, "preemption_bound": bound, "class": class, "loom_output": msg.chars().take(1500).collect::<String>(),
                              "reproduce": format!("E3_TRACKING={0} E3_MODE={1} e3 body {name} {2}", if id == "C09" { 1 } else { 0 }, if id == "C09" { "c09" } else { "c08" }, bound.map_or("none".to_owned(), |b| b.to_string()))}),
                );
            } else {
                rep.acc.count(&format!("body {name} failed with a {prop} violation ({class}); reported by the {prop} check"), 1);
                rep.caps.push(format!("body {name} stopped early by a {prop} violation"));
            }
            all_unbounded = false;
        }
    }
    if id == "C08" {
        // sequential conformance of the same vector through the public facade (sibling binary):
        // every push/extend history up to a depth bound incl. lying iterators against a content model
        let e1 = common::verif_root().join("target").join("release").join("e1");
        let e1 = std::env::var("VERIF_E1_BIN").map(std::path::PathBuf::from).unwrap_or(e1);
        match std::process::Command::new(&e1).args(["c08-seq", tier]).output() {
            Ok(out) if out.status.success() => {
                let stdout = String::from_utf8_lossy(&out.stdout).to_string();
                let v: Value = serde_json::from_str(stdout.lines().last().unwrap_or("")).unwrap_or(Value::Null);
                let h = v["histories"].as_u64().unwrap_or(0);
                if h == 0 {
                    machinery_failure("sequential C08 child reported no histories");
                }
                rep.acc.evaluations += h;
                rep.acc.states += h;
                rep.acc.transitions += v["transitions"].as_u64().unwrap_or(0);
                rep.acc.traces += h;
                rep.acc.nontrivial += v["nontrivial"].as_u64().unwrap_or(0);
                for s in v["samples"].as_array().cloned().unwrap_or_default() {
                    rep.acc.sample(|| s.clone());
                }
                for vl in v["violations"].as_array().cloned().unwrap_or_default() {
                    let sig = vl["sig"].as_str().unwrap_or("C08/seq/?").to_owned();
                    let what = vl["what"].as_str().unwrap_or("").to_owned();
                    for ex in vl["examples"].as_array().cloned().unwrap_or_default() {
                        rep.acc.violation(&sig, &what, || ex);
                    }
                    if let Some(c) = rep.acc.violations.get_mut(&sig) {
                        c.count = c.count.max(vl["count"].as_u64().unwrap_or(1));
                    }
                }
                rep.extra("sequential_histories", json!(h));
            }
            Ok(out) if out.status.code().is_none() => {
                // killed by a signal (abort on heap corruption, segmentation fault): the library was
                // driven through safe calls only, so this is memory unsafety of the tree under test
                let err: String = String::from_utf8_lossy(&out.stderr).lines().filter(|l| !l.trim().is_empty()).take(3).collect::<Vec<_>>().join(" | ");
                rep.acc.violation("C08/seq/process_died", "the process running push/extend histories on the vector was killed by a signal (memory unsafety)", || json!({"status": format!("{:?}", out.status), "stderr": err.chars().take(300).collect::<String>()}));
            }
            Ok(out) => machinery_failure(&format!("sequential C08 child failed: {:?} {}", out.status, String::from_utf8_lossy(&out.stderr).chars().take(300).collect::<String>())),
            Err(e) => machinery_failure(&format!("cannot run {}: {e}", e1.display())),
        }
    }
    if id == "C09" {
        // the parts of the statement outside boxcar.rs: sequentially consistent monitors (runs never
        // overlap, a matcher scratch slot is used by exactly one pool thread) evaluated in every
        // execution of the scheduler scenarios with two worker threads (sibling binary)
        let e1 = common::verif_root().join("target").join("release").join("e1");
        let e1 = std::env::var("VERIF_E1_BIN").map(std::path::PathBuf::from).unwrap_or(e1);
        match std::process::Command::new(&e1).args(["c09-e2", tier]).output() {
            Ok(out) if out.status.success() => {
                let stdout = String::from_utf8_lossy(&out.stdout).to_string();
                let v: Value = serde_json::from_str(stdout.lines().last().unwrap_or("")).unwrap_or(Value::Null);
                let ex = v["executions"].as_u64().unwrap_or(0);
                if ex == 0 {
                    machinery_failure("scheduler C09 child reported no executions");
                }
                rep.acc.evaluations += ex;
                rep.acc.states += ex;
                rep.acc.traces += ex;
                rep.acc.transitions += v["transitions"].as_u64().unwrap_or(0);
                rep.extra("scheduler_executions_monitored", json!(ex));
                rep.extra("scheduler_bound", v["bound"].clone());
                for vl in v["violations"].as_array().cloned().unwrap_or_default() {
                    let sig = vl["sig"].as_str().unwrap_or("C09/e2/?").to_owned();
                    let what = vl["what"].as_str().unwrap_or("").to_owned();
                    for ex in vl["examples"].as_array().cloned().unwrap_or_default() {
                        rep.acc.violation(&sig, &what, || ex);
                    }
                    if let Some(c) = rep.acc.violations.get_mut(&sig) {
                        c.count = c.count.max(vl["count"].as_u64().unwrap_or(1));
                    }
                }
            }
            Ok(out) => machinery_failure(&format!("scheduler C09 child failed: {:?} {}", out.status, String::from_utf8_lossy(&out.stdout).chars().rev().take(300).collect::<String>().chars().rev().collect::<String>())),
            Err(e) => machinery_failure(&format!("cannot run {}: {e}", e1.display())),
        }
    }
    rep.extra("bodies", json!(bodies_json));
    rep.exhaustive = all_unbounded;
    rep.bound = bodies
        .iter()
        .map(|(n, b)| format!("{n}: {}", b.map_or("all executions (DPOR, no preemption bound)".to_owned(), |b| format!("preemption bound {b}"))))
        .collect::<Vec<_>>()
        .join("; ");
    rep.rule = "every execution loom's C11 model admits for each harness body on the real boxcar.rs (2-3 threads, 1-3 operations each); states = executions; distinct_nontrivial = distinct observation signatures over all bodies".into();
    rep.assumptions = vec![
        "loom's model of the C11 memory model (it does not model SeqCst fences precisely and treats Relaxed loads as possibly stale)".into(),
        "boxcar.rs is included by path; only its imports are cfg-switched to shims, the code explored is the code shipped".into(),
        "payload accesses are tracked at the granularity of UnsafeCell::get() calls (slot and column writes, slot reads); column reads through raw pointers are covered by the value oracle".into(),
        if id == "C09" {
            "worker.rs/lib.rs cannot run under loom (parking_lot, rayon); their shared state is only reachable through Arc<Mutex<Worker>> guards in safe code; the controlled-scheduler checks additionally monitor run overlap and per-thread matcher use".into()
        } else {
            "reserved-but-never-published indices of an over-reporting iterator are legal holes".into()
        },
    ];
    rep.finish()
}

/// C11 on the concurrent vector: every body again (value oracle only), reporting the executions in
/// which an item that was created is not destroyed exactly once after the vector is gone. Prints
/// one JSON line for the C11 check of the enumeration binary to merge.
fn c11_loom(tier: &str) -> ! {
    let bodies = if tier == "thorough" { BODIES_THOROUGH } else { BODIES_QUICK };
    let exe = std::env::current_exe().unwrap_or_else(|_| machinery_failure("current_exe"));
    let results: Vec<(usize, std::process::Output)> = std::thread::scope(|s| {
        let hs: Vec<_> = bodies
            .iter()
            .enumerate()
            .map(|(i, (name, bound))| {
                let exe = exe.clone();
                s.spawn(move || {
                    let out = std::process::Command::new(&exe)
                        .env("E3_TRACKING", "0")
                        .env("E3_MODE", "c11")
                        .args(["body", name, &bound.map_or("none".to_owned(), |b| b.to_string())])
                        .output()
                        .unwrap_or_else(|_| machinery_failure("cannot spawn loom child"));
                    (i, out)
                })
            })
            .collect();
        hs.into_iter().map(|h| h.join().unwrap()).collect()
    });
    let mut executions = 0u64;
    let mut viols = Vec::new();
    let mut notes = Vec::new();
    for (i, out) in results {
        let (name, bound) = bodies[i];
        let stdout = String::from_utf8_lossy(&out.stdout).to_string();
        let stderr = String::from_utf8_lossy(&out.stderr).to_string();
        if out.status.success() {
            let v: Value = serde_json::from_str(stdout.lines().last().unwrap_or("")).unwrap_or(Value::Null);
            executions += v["executions"].as_u64().unwrap_or(0);
        } else {
            let (prop, class) = classify(&stderr);
            let msg: String = stderr.lines().filter(|l| l.contains("panicked") || l.contains("drop accounting") || l.contains("assert")).take(8).collect::<Vec<_>>().join(" | ");
            if prop == "C11" {
                viols.push(json!({"sig": format!("C11/loom/{name}/{class}"), "what": format!("loom found an execution of body {name} in which an item is not destroyed exactly once"),
                                  "example": {"body": name, "preemption_bound": bound, "loom_output": msg.chars().take(1200).collect::<String>(),
                                              "reproduce": format!("E3_TRACKING=0 e3 body {name} {}", bound.map_or("none".to_owned(), |b| b.to_string()))}}));
            } else {
                notes.push(format!("body {name} stopped early by a {prop} violation ({class})"));
            }
        }
    }
    let all_unbounded = bodies.iter().all(|(_, b)| b.is_none());
    println!("{}", json!({"executions": executions, "bodies": bodies.len(), "violations": viols, "notes": notes, "all_unbounded": all_unbounded}));
    std::process::exit(0)
}

fn main() {
    let args: Vec<String> = std::env::args().collect();
    if args.len() >= 3 && args[1] == "c11-loom" {
        c11_loom(&args[2]);
    }
    if args.len() >= 4 && args[1] == "body" {
        let bound = args[3].parse::<usize>().ok();
        child(&args[2], bound);
    }
    if args.len() >= 3 && (args[1] == "C08" || args[1] == "C09") {
        parent(&args[1], &args[2]);
    }
    if args.len() >= 4 && args[1] == "replay" {
        // a replay file names the body and bound; re-explore it
        let text = std::fs::read_to_string(&args[3]).unwrap_or_else(|_| machinery_failure("cannot read replay"));
        let v: Value = serde_json::from_str(&text).unwrap_or(Value::Null);
        let case = &v["cases"][0];
        let name = case["body"].as_str().unwrap_or("push-push-reader").to_owned();
        let bound = case["preemption_bound"].as_u64().map(|b| b as usize);
        // same settings as the check that wrote the replay file
        let (tracking, mode) = match args[2].as_str() {
            "C09" => ("1", "c09"),
            "C11" => ("0", "c11"),
            _ => ("0", "c08"),
        };
        std::env::set_var("E3_TRACKING", tracking);
        std::env::set_var("E3_MODE", mode);
        child(&name, bound);
    }
    machinery_failure("usage: e3 <C08|C09> <quick|thorough> | e3 body <name> <bound|none> | e3 replay <id> <file>");
}
