#!/usr/bin/env python3
"""Rewrites section 8.4 of DESIGN.md from seeded/*/meta.json (the narrative below the table is kept in this script)."""
import json,glob
rows=[]
for d in sorted(glob.glob('/verif/seeded/*/meta.json')):
    m=json.load(open(d)); rows.append((m['name'],m['breaks_property'],m['needs_to_manifest'],m['caught_by']))
s=open('/verif/DESIGN.md').read()
start=s.index('### 8.5 Detection matrix (seeded changes)')
new='''### 8.5 Detection matrix (seeded changes)

Fresh sub-agents were each given only the text of one property and a scratch worktree and asked for
a change that breaks the property, still compiles, passes the pinned suite and needs something
specific to manifest, with a demonstration. Round 1: one agent per property (20). Round 2: 13 more
agents on the properties with the largest behaviour space, each told which change had already been
used for its property. Round 3: 12 more (C01 C02 C06 C07 C11 C12 C13 C15 C16 C17 C19 C20), each told
the titles of the changes already used. Round 4: 8 more (C03 C04 C05 C08 C09 C10 C14 C18). Round 5: 11 more
(C01 C02 C06 C07 C11 C12 C13 C15 C16 C19 C20). Round 6: 9 more (C03 C04 C05 C08 C09 C10 C14 C17 C18).
Round 7: 10 more (C06 C07 C08 C09 C11 C12 C13 C18 C19 C20), each told to find a mechanism unlike all earlier ones.
Round 8: 10 more (C01 C02 C03 C04 C05 C10 C14 C15 C16 C17) with a list of the dimensions along which a change can hide.
Round 9: 9 more (C06 C07 C08 C09 C11 C12 C13 C19 C20), same.
Round 10: 11 more (C01 C02 C03 C04 C05 C10 C14 C15 C16 C17 C18). Round 11: 9 more (C06 C07 C08 C09 C11 C12 C13 C19 C20).
Round 12: 11 more (C01 C02 C03 C04 C05 C10 C14 C15 C16 C17 C18). Round 13: 9 more (C06 C07 C08 C09 C11 C12 C13 C19 C20).
Round 14: 10 more (C04 C05 C06 C07 C12 C13 C14 C18 C19 C20).
Every returned change was re-confirmed in a new scratch worktree by
`tools/confirm_seed.sh` / `confirm_seed_unit.sh` (patch applies, 33+9 tests pass with it, the
demonstration fails with it and passes without it; for the two memory-ordering changes the
demonstration is a Miri run) and then the property's quick check was run against it in /repo
(apply, check, `git checkout -- .`). `seeded/<name>/` holds patch.diff, the demonstration, the
agent's notes, confirm.log, the check's output and meta.json. Three pairs of round-1 agents found
the same change independently (C02/C03, C06/C07, C08/C11).

| seeded change | property | needs | caught by |
|---|---|---|---|
'''
for n,p,needs,c in rows:
    new+=f"| {n} | {p} | {needs.replace('|','/')} | {c} |\\n".replace('\\n','\n')
new+='''
All 152 are caught now on every run - 148 by the quick tier of the property they were made for,
four by the check of a sibling property (R9-C08, an ordering-only change filed under C08, by C09;
R10-C10 and R12-C02, the same pattern-layer change filed under C10 and C02, by C15; R13-C06, the
join-and-cancel change of R4-C18 filed under C06, by C18 - through the front end it needs
thousands of matches and a cancel inside the parallel sort, which the scheduler scenarios do not
reach).
**Forty-eight were missed when first confirmed** (eleven of rounds 1-2, seven of round 3, two of
round 4, four of round 5, one of round 6, five of round 7, one of round 8, six of round 9, one of
round 10, four of round 11, one of round 12, two of round 13, three of round 14) and led to
strengthening:

* *C01-no-fold-after-normalize* (only U+0130 is affected) and *R2-C14-std-is-uppercase* (final
  sigma, long s, micro sign, title-case digraphs): hand-picked alphabets cannot anticipate which
  character trait a shortcut keys on. The matcher checks and the pattern-grammar check now add a
  **signature-complete alphabet**: one representative per behavioural signature (class, does
  normalisation / folding change it, are the results ASCII, table-upper vs std-upper vs
  std-lower, whitespace, ...) computed from the library's own tables over all scalar values.
* *C02/C03-pscore-tie*: needs a gap that floors the running score (>= 15 skipped characters).
  A **long-gap family** was added to the large-shape families, and C03 now scores every
  *structurally* valid alignment instead of skipping alignments that are not witnesses.
* *C06/C07-inflight-not-cleared-on-restart*, *R2-C06-inflight-offset*: need one or two writers
  paused between reservation and publication across particular runs. When pauses are produced by
  the scheduler each costs a preemption; the **held-writer family H** blocks writers inside their
  fill callback on gates the script opens (two pushes or one batch held at its second item,
  released in either order around an edit of every kind), so these states are reached at bound 0.
  Small restart families (`Bs/`) with an old-stream writer and new-stream batches were added to
  C07 and C12, and the scheduler harness reports a panicking library call as a violation.
* *R2-C07-cancelled-run-skips-reset*: needs three edits with a queued run overtaken by the next
  edit; the **edit-chain family E** (all triples over six texts, each tick timing out or
  completing) covers every append/non-append combination.
* *R2-C12-restart-reuses-empty-vector*: two restarts in a row with an injector taken in between;
  family **RR** added.
* *C08-extend-guard-off-by-one*: the loom bodies only used honest and over-reporting iterators; the
  C08 check now also runs the **sequential content oracle** of the enumeration binary.
* *R2-C09-extend-bucket-reload-relaxed*: needs a batch that crosses into a bucket allocated by
  *another* thread; a loom body with prefill by single pushes (so that a spawned push allocates
  bucket 1 eagerly) was added.
* *R2-C10-stale-matrix-cells*: history dependence that only shows when an earlier call left a
  residue at the right offset; instead of hoping for the right predecessor the **poisoned-scratch
  check** overwrites the whole slab (cfg-gated accessor) with each of six byte patterns before
  every call of a structured pool and of a complete small domain and demands the fresh result.
* *R3-C19-cancel-lock-timeout* (the cancelling branch of `tick` takes the worker lock with a
  timeout and gives up): invisible to a scheduler that *assumes* per hook point whether the lock
  operation behind it blocks - the thread was only ever resumed with the lock free. The scheduler
  now **derives the kind of each lock operation from the library source** (compiled in with
  `include_str!`): blocking acquisition = blocking point, timed try-lock = yield (the thread may
  also proceed while the lock is held, the attempt then really fails), plain try-lock = step. A
  hook point whose following lock operation cannot be found is a machinery failure.
* *R3-C12-inflight-not-cleared*: the duplicate match in the new stream was observed but
  attributed to C06/C07 only; every consistency, from-scratch, panic or convergence violation
  observed **after the first restart** of a scenario is now also a C12 violation
  (`C12/after_restart/...`) - the property's mechanism list names the reset of scan position,
  in-flight list and matches by the cleared run.
* *R3-C13-stale-was-canceled*: needs an interruptible run followed by a run that takes the
  empty-pattern / cleared path; two more event-loop variants.
* *R3-C07-negative-atom-append-count*: family **Ap** (10 start texts of every atom shape x 8 suffix
  kinds, 13 discriminating items) so that every way an append can add characters or words after
  a negated / anchored / escaped atom is compared with the from-scratch result.
* *R3-C01-greedy-end-off-by-one*: only in the greedy fallback beyond the matrix limit and only for
  a needle whose first two characters are equal but occur once; family **repeated-needle-chars**
  (14 filler lengths around every limit x ASCII / non-ASCII filler x 4 haystack layouts x 8
  needles). Large-family violations are now replayable by their position in the family list.
* *R3-C15-matchlist-unstable-sort*: stability only shows beyond the sorting routine's small-slice
  path (> 20 elements); lists of every length 0..=96, 200 and 1000 with interleaved ties.
* *R3-C17-owned-slice-u32-excluded-start*: arms reachable only through `(Bound, Bound)` tuples;
  every (start kind x end kind) pair is enumerated for all four slice methods.
* *R4-C04-tie-prefers-consecutive*: the smallest failing input has a 4-character needle and 7
  columns over {two letters, a camel hump, a delimiter}; the quick tier stopped at needles of 3.
  Deep-and-narrow domain **camel4** added (quick: h <= 7, n <= 4; thorough: h <= 8 and a variant
  with a digit).
* *R4-C18-join-cancel-and*: only nodes with a half above the sequential threshold read the flag,
  so with an even first split of <= 4100 elements neither half ever does and the two results of
  the join are never (true, false). Shapes **low_pivot / high_pivot** (nine pivot candidates
  planted near one end) give a first split of ~500 : ~4700 in either order; every comparator-call
  index is still enumerated as cancel moment.
* *R5-C13-flag-armed-after-spawn*: code moved behind `pool.spawn` runs concurrently with the run,
  but no hook point separated the two, so the scheduler executed them atomically. Instead of
  adding yet another named point the flags themselves were instrumented: under the cfg,
  `AtomicBool` in `lib.rs` / `worker.rs` is a wrapper (`verif::FlagBool`) whose every load and
  store is a program point carrying the flag's address; accesses to the notification flag are
  scheduling points in the C13 scenarios **wherever the code performing them sits**.
* *R5-C20-scan-holds-extra-arc*: "at every point" includes the middle of a run; family `C20s`
  (five short scripts with a pattern and items, item-level points, one preemption in the quick
  tier, two in the thorough one).
* *R5-C07-status-last-edit-only*: family **EE** (two or three edits between two ticks).
* *R5-C01-prefilter-z-exclusive*: hand-picked ASCII alphabets have the same weakness as
  hand-picked Unicode ones. Family **ascii-sweep** (each of the 128 ASCII characters as a needle
  character against itself and its case partner, three needle shapes x four haystack layouts)
  and domain **ascii-edges** (first/last letter and digit of each range and their neighbours).
* *R6-C10-setup-last-char-unchecked* ended the check as a **machinery failure** (exit 2): the
  poisoned-scratch phase called the library on a fresh matcher outside `catch_unwind`. Every
  subject call of that phase is caught now and a panic on a fresh matcher is a violation of its own.
  *R6-C08-eager-alloc-store* uses `AtomicPtr::store`, which the loom shim did not offer (the check
  would not have built); the shim now covers the whole std API of the three atomic types.
* Round 7: *R7-C11-dealloc-needs-drop-skips-columns* (every history is now also run with a plain
  `u32` item type; only the column-storage accounting applies to it), *R7-C08-count-truncates-
  before-clamp* (reservation-overflow cases: two or three over-reporting batches that push the
  reservation counter past 2^32; count monotone, >= completed pushes, published items readable),
  *R7-C12-cancelled-cleared-run-skips-reset* (family **RE**: an edit after the restart, before or
  after the first tick; the first attempt at this family still missed the change because the new
  stream's matching indices were a superset of the old stream's - the item sets of the two streams
  are now complementary), *R7-C13-notify-only-on-progress* (event loop around a held writer),
  *R7-C18-cancel-lost-in-sequential-branch* (half-sorted shapes).
* Round 8: *R8-C10-prefix-bonus-unsaturated* - the long-needle families now also run with the
  prefix preference at every start offset 0..=7 (family `long-needle/prefix-offset`).
* Round 9: *R9-C13-flag-read-before-unlock* (a second program point right after every flag
  access, so that an un-instrumented operation that follows - here the unlock - can be delayed),
  *R9-C11-eager-alloc-plain-store-orphans-bucket* (the loom bodies got a drop-counting item type
  and are run a third time for C11 with the value oracle off; this exposed a bug of the shim: its
  shadow copy of an `AtomicPtr` was written before the store instead of after it), *R9-C09-extend-
  guard-le-count* (loom bodies with an under-reporting batch; the C09 run leaves value assertions
  to the C08 run because loom stops at the first failing execution), *R9-C12-snapshot-cleared-
  before-new-vector* (nothing of an older stream may be reachable through a cleared snapshot),
  *R9-C20-restart-true-sets-init* (a panic inside `active_injectors` is a wrong count; library
  panics are attributed to whichever property is being checked), *R9-C06-cancelled-before-start-
  skips-rescore-reset* (edit chains shared with C06/C19). Re-running all earlier C08/C09 seeds
  after these changes showed two regressions of the machinery, both repaired: drop accounting
  spoke first in the C08 run (now only in the C11 run), and the new reservation-overflow cases
  died of a 64 GiB allocation under *R2-C08* (they now run in a process of their own, whose
  death is a violation).
* Round 10: *R10-C18-partition-equal-skips-one* made the sort panic inside the cancel-moment
  enumeration, which ended the check with exit 101; every call of the sort is caught now and a
  panic is a violation (`C18/<family>/panicked`).
* Round 11: *R11-C09-flags-cleared-after-publication* (plain initialising writes after a
  publication are invisible to loom: every shim flag now remembers the execution it was created
  in, and creating a flag right after a successful pointer publication is a scheduling point),
  *R11-C08-extend-keeps-previous-bucket-pointer* (a child process of the sequential oracle that is
  killed by a signal is a finding, not a machinery failure), *R11-C07-status-enum-order-swapped*
  (family **MC2**), *R11-C20-handover-else-if* (pattern edits in the C20 alphabet).
* Round 12: *R12-C15-pattern-score-u16-sum* - patterns of up to 100 copies of a long atom.
* Round 13: *R13-C11-snapshot-releases-old-vector-at-spawn* (an item the snapshot lists as a
  match must not be destroyed), *R13-C13-extend-notify-guard-dropped-early* (a C13 script whose
  injector thread uses the batch call).
* Round 14: *R14-C14-escape-branch-keeps-cluster-tail* (cluster family: every constructor must
  treat a text like its reduction to the first code point of every extended grapheme cluster;
  the first version of this oracle compared atoms structurally and reduced texts that cluster
  again - both corrected before commit), *R14-C06-placeholder-compare-merged* (family **NG**,
  negated-only patterns), *R14-C13-update-config-cancels-without-respawn* (`update_config`
  entered the alphabet of one C13 script; its blocking lock got a hook point).
* Confirming *C13-no-retry-for-zero-timeout* exposed a harness bug (a parked thread of a
  deadlocked execution kept a global lock; the next execution stalled and the run ended as a
  machinery failure instead of a verdict) - fixed by a pool of reference matchers.

After round 9 and again after round 13 every stored change was re-applied in turn and its check
re-run (`tools/recheck_all.sh`, in the shadow copy): 102 of 102, then 142 of 142 are reported.

A side remark of the C10 agent (an overflow with `prefer_prefix` for matches starting beyond
column 21845) was a genuine defect of the unchanged tree that the large-shape families had missed
because they only used `prefer_prefix = false`: a late-start family with both settings was added
(it reproduces the panic) and the defect was repaired (F18, fix 29de1e2).
'''
open('/verif/DESIGN.md','w').write(s[:start]+new)
print("matrix rows:",len(rows))
