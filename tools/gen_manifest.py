#!/usr/bin/env python3
"""Generates /verif/MANIFEST.json from the table below (kept in one place so that the manifest
stays valid while checks are added)."""
import json, os, subprocess
ROOT = os.path.dirname(os.path.dirname(os.path.abspath(__file__)))

E2T = "controlled scheduler (CHESS-style stateless DFS with preemption bound) over the real threads of the real Nucleo: every schedule of the instrumented points up to the bound"
E1 = "bounded-exhaustive enumeration of inputs/histories on the real code against an independent reference model (explicit enumeration, no sampling, no solver)"
CHECKS = {
 "C01": dict(engine="e1", technique="bounded-exhaustive input enumeration (all strings over class-representative alphabets up to a length bound x 16 configurations x 4 representation pairs) against a subsequence reference",
   text="Every haystack/needle over alphabets holding one representative per character class and table shortcut, up to the stated lengths, in every configuration and representation pair, is run through the four fuzzy entry points of the real matcher and compared with an independent subsequence decision; the enumeration is complete within the bound, so any input-dependent disagreement between prefilter, matrix setup and greedy scan inside the bound is found.",
   note="Bounded (small-scope hypothesis beyond the length bounds); chars::normalize/to_lower_case are taken as the definition of the normal form (C16 checks them); VT excluded; open known finding F2 (Ascii haystack / Unicode all-ASCII needle)."),
 "C02": dict(engine="e1", technique="bounded-exhaustive input enumeration x six indices entry points x prior vector contents, witness validity oracle",
   text="Same complete enumeration as C01; every indices-returning entry point is called with three different prior vector contents and the appended indices are checked to be a valid witness (count, monotone, in range, character-wise normal-form equality, contiguity and anchoring for the anchored kinds, nothing appended on failure).",
   note="Bounded; anchoring uses the same whitespace predicate as the implementation documents (ASCII whitespace for ASCII representation, Unicode White_Space otherwise)."),
 "C03": dict(engine="e1", technique="bounded-exhaustive input enumeration, independent scorer applied to the reported alignment",
   text="For every case of the bounded domain with prefer_prefix off and all six algorithms, the returned score is compared with an independent implementation of the scoring scheme (literal constants, wide integers) evaluated on the alignment the indices variant reports; score-only vs indices variants and cross-algorithm agreement on equal alignments are checked too.",
   note="Bounded; the reference scorer's constants are literals taken from the property statement."),
 "C04": dict(engine="e1", technique="bounded-exhaustive input enumeration against brute-force maximum over all alignments and a naive full-matrix recurrence",
   text="For every case small enough for brute force, the optimal matcher's score is bracketed between the naive two-matrix recurrence on the full matrix and the maximum over all C(h,n) alignments; one-character needles must hit the maximum; prefer_prefix on/off are compared on every case.",
   note="Bounded (haystack <= 9, needle <= 4); both references are independent re-implementations."),
 "C05": dict(engine="e1", technique="bounded-exhaustive input enumeration against reference substring/prefix/postfix/exact relations",
   text="Every case of the bounded domain is decided by reference implementations of the four documented relations (all occurrences, leftmost-with-highest-bonus rule, whitespace-stripping rules) and compared with both variants of the four real entry points, including the reported occurrence.",
   note="Bounded; open known finding F2 for the (Ascii, Unicode) representation pair."),
 "C10": dict(engine="e1", technique="exhaustive enumeration: all accepted (haystack_len, needle_len) shapes of the scratch-slab layout (complete), all entry points on bounded input domains and large-shape families under overflow checks, all call sequences up to a depth on one shared matcher",
   text="Memory safety of the scratch slab is decided by running the real MatrixSlab::alloc on every shape it can accept (about 1.2 million (h,n) pairs x 2 character types, a superset of the accepted domain) and checking that the five views it hands out lie inside the allocation, aligned and disjoint; totality by calling all twelve entry points on complete bounded domains plus shapes on both sides of every guard and needles up to 6000 characters in a build where overflow and debug assertions panic; history independence by comparing, for every call sequence up to the depth bound over a pool of 40 residue-leaving calls, the last result on a shared matcher with a fresh matcher.",
   note="Extents are read through a cfg(nucleo_verif) accessor that calls the real alloc; large inputs are structured families (exhaustive in lengths, not content); out-of-bounds accesses inside a correctly sized view would surface as slice-index panics (safe code)."),
 "C14": dict(engine="e1", technique="exhaustive enumeration of all pattern strings over an 11-symbol marker/escape/space/ASCII/non-ASCII alphabet up to a length bound against a reference grammar; all ordered reparse pairs",
   text="Every string up to the bound goes through Pattern::parse, Pattern::new (5 kinds), Atom::parse and Atom::new (escape on/off) under 3x2 case/normalisation settings and is compared atom by atom (kind, polarity, needle text, both flags) with a reference parser written from the statement; the escaped form of every literal text must round-trip; reparse on a used object equals a fresh parse for all ordered pairs.",
   note="Bounded length (5 quick / 6 thorough); combining marks excluded (grapheme truncation is documented); private flags read from Debug output."),
 "C15": dict(engine="e1", technique="exhaustive enumeration of atom lists (every kind and polarity) x haystack pool x configurations on a shared matcher, against per-atom direct matcher calls on fresh matchers",
   text="Every list of up to 3 (thorough 4) atoms from a 14-atom pool x 30 haystacks x 2 configurations: Pattern::score/indices must equal the conjunction computed from direct matcher calls per atom on fresh matchers, indices must be the concatenation of the positive atoms' indices after untouched prior content; every two-column MultiPattern over a text pool x all haystack pairs; match_list on every input list up to a length bound against a reference stable sort.",
   note="Pools are fixed lists chosen to cover every kind/polarity/smart-case/smart-normalisation combination; bounded list lengths."),
 "C16": dict(engine="e1", technique="complete enumeration of all 1,112,064 Unicode scalar values x 4 configurations (no bound)",
   text="The whole domain is finite and is enumerated completely: simple case folding and the decomposition rule against tables derived from Python's unicodedata, block confinement, idempotence, ASCII stability, and coherence of every normalising code path exercised through the six matcher algorithms on three haystack shapes per character.",
   note="Reference data is Unicode 14 (python3 unicodedata); code points unassigned there are not constrained for folding; characters whose composite normal form is not a fixed point are outside the matcher's documented precondition and only counted."),
 "C17": dict(engine="e1", technique="exhaustive enumeration of all strings over a 12-symbol grapheme-relevant alphabet up to a length bound x 7 constructors x every slice range against unicode-segmentation",
   text="Every string of up to 5 (thorough 6) code points over ASCII, CR, LF, precomposed, combining mark, ZWJ, emoji, regional indicator, Hangul jamo and a prepend character is converted by every constructor and compared with one-char-per-extended-grapheme-cluster content, representation choice, length, indexing, iteration both ways, Display and every slice/slice_u32 range on borrowed and owned types.",
   note="unicode-segmentation is the trusted definition of grapheme clusters; bounded length."),
 "C11": dict(engine="e1", technique="exhaustive enumeration of push/extend histories (honest and lying iterators, panicking callbacks) on the real lock-free vector against a content model, a drop log and a counting allocator (drop-logging and plain item types); loom exploration of concurrent writers with drop accounting; plus exhaustive handle/restart/drop histories of the real Nucleo under the controlled scheduler with destruction bookkeeping",
   text="Every history of up to 3 (thorough 4) operations over a 12-operation alphabet from 18 start states (capacity x prefill just before a bucket boundary x columns) runs on the real vector through the cfg-gated facade; after every operation the content (get, snapshot iteration, count) is compared with a reference model and the drop log is checked (nothing reachable dropped, every unpublished item dropped exactly once); after dropping the vector every item must have been dropped exactly once and every column allocation freed exactly once (thread-local counting allocator with quarantine, so double frees are detected instead of corrupting the heap).",
   note="Vector level: sequential histories with a counting allocator for the column storage. Front end (real Nucleo under the controlled scheduler): every history of up to 4 (thorough 5) operations over {take, clone, drop x2, restart(true/false), push x2, tick, drop-matcher} plus scenarios with an injector thread that outlives restarts and the matcher; after every operation no item of a stream with a live injector or of the matcher's current stream may have been destroyed, at the end every injected item must have been destroyed exactly once. Leaked partially filled columns of a panicking callback are tolerated as the statement allows."),
 "C18": dict(engine="e1", technique="exhaustive enumeration of all small inputs, every length x deterministic shape family (including a quicksort-killer adversary), and every comparator-call index as cancel moment, on the real par_quicksort",
   text="All key sequences over 4 keys up to length 9 and all permutations up to length 8; 23 shapes at every length 0..=2600, 4000..=4100 and larger lengths, including inputs produced by running the real sort against McIlroy's adversary (they drive it through break_patterns into heapsort; long ones run in a child process so a stack overflow is reported, not suffered); for three lengths x four shapes the cancel flag is raised at EVERY comparator call index; outputs are checked to be permutations, sorted when 'not cancelled' is reported, never 'cancelled' without the flag; the worker's total order gives the identical result for 1/2/4/8 threads.",
   note="Large lengths are exhaustive in length x shape, not over all inputs (exhaustive=false); multi-thread runs are repeated runs under rayon's own scheduling (labelled); per-routine entry counters show that every branch of the sort was executed."),
 "C08": dict(engine="e3", technique="loom: exhaustive exploration (DPOR, C11 memory model) of the real boxcar.rs under a linearizability/value oracle, 2-3 threads; plus exhaustive enumeration of sequential push/extend histories (lying iterators) against a content model, of vector layouts x snapshot / par_snapshot starts, and of reservations beyond the index space",
   text="The unmodified boxcar.rs is compiled into a loom harness (its atomics resolve to shims over loom's); for each body (push,push || push+announce || reader; prefill to a bucket boundary then push || extend || snapshot reader, also with an over-reporting iterator; two extends racing to allocate one bucket; capacities 0/1/40, 1-2 columns) loom enumerates every execution its memory model admits (quick: preemption bound 3 where stated, thorough: unbounded or bound 4) and each execution is judged: indices distinct and gap-free, every lookup None or a complete item of the owning push (value and all columns), completed pushes visible to every happens-after lookup forever at the same index, count monotone and >= completed pushes, snapshot iterator consecutive.",
   note="Bounded to 3 threads and 1-3 operations each; bodies with a preemption bound are exhaustive only up to that bound (reported); explored with payload tracking off so that the value oracle, not the race detector, decides."),
 "C09": dict(engine="e3", technique="loom: exhaustive exploration of the real boxcar.rs with happens-before tracking of every payload cell, of bucket and flag initialisation; plus scheduler monitors (one scratch per pool thread, runs never overlap, no unchecked access to an unpublished item) over every explored schedule of the front end",
   text="Same bodies as C08 with tracking on: every slot/column access through UnsafeCell::get() and every use of a bucket's flag array is reported to a per-address loom cell, so any pair of accesses not ordered by the executed atomics with their declared orderings fails the execution - under the C11 model, not the host hardware; the final drop of the vector is included. The parts of the statement outside boxcar.rs (worker result list, matcher scratch) are reachable only through Arc<Mutex<Worker>> guards in safe code; in addition the check runs the controlled-scheduler scenarios with two worker threads and judges every execution with two monitors: background runs never overlap, and every matcher scratch slot is used by exactly one pool thread (and never from outside the pool).",
   note="loom cannot execute parking_lot/rayon, so worker.rs/lib.rs are not explored at memory-model level (type-system argument + SC monitors); column reads through raw pointers are covered by the C08 value oracle rather than by tracking."),
 "C06": dict(engine="e2", technique=E2T+"; snapshot-consistency monitors after every tick",
   text="Scenario families (pattern edit / restart between ticks, two injector threads pushing and batch-extending, pools of 1 and 2 threads, 1-2 columns) are executed on a fresh real Nucleo under every schedule with at most the stated number of preemptions (quick: 0 on the large scripts, 1 on the small ones; thorough: 1 and 2); writers are suspended between reserving an index and publishing it, the order in which pool threads report in-flight items is an owned environment choice. After every tick the snapshot is judged: every match published (checked accessor before any unchecked one; a cfg-gated probe reports an unchecked dereference of an unpublished item; a crashing child is reported with its schedule), no duplicates, scores equal to the snapshot pattern on a reference matcher, exactness against the published set, documented order.",
   note="Sequentially consistent interleavings at hook points; scans of the item vector are atomic w.r.t. writers (atomic-granularity interleavings of the vector are C08/C09); bounded scripts (<= 8 items)."),
 "C07": dict(engine="e2", technique=E2T+" + exhaustive enumeration of edit/tick/restart/inject histories up to a depth bound, compared at quiescence with the from-scratch result",
   text="Every history of up to 3 (thorough 4) operations over {13 pattern texts with truthful append hints, tick, restart(true/false), push, extend} on pools of 1 and 2 threads, each tick branching on timeout vs completion, followed by a drain; plus interleaved scenarios with an injector thread; at quiescence the snapshot must equal (items, scores, order, count, pattern) what the reference computes from all items of the current stream.",
   note="update_config is outside the claim as the property states; histories are bounded; the drain blocks until the run in flight has released the worker (models 'waiting long enough')."),
 "C12": dict(engine="e2", technique=E2T+"; stream-isolation monitors",
   text="Family B: tick, restart(true|false), optional second restart, an injector of the old stream that keeps pushing from its own thread across the restart, an injector of the new stream handed over after it; every schedule up to the bound; monitors: clear is immediate, keep leaves the view identical until a run over the new stream completes, a snapshot never mixes streams nor returns to an older one, old injectors keep working, plus all C06 monitors.",
   note="Same engine assumptions as C06."),
 "C13": dict(engine="e2", technique=E2T+" with every point around the notification flag; deadlock = lost wake-up",
   text="An event loop that only ticks when notified (tick(0); if running wait for notify) runs against the real worker on a one-thread pool with scheduling points at every step of the flag/lock handshake; every schedule up to preemption bound 1 (thorough 2): no enabled thread while the loop waits is a lost wake-up; a tick that reported running and is not superseded must be followed by a notify after the worker released its lock; injector notifies must follow publication.",
   note="SC interleavings only: the need for the SeqCst fences of the repaired handshake is a weak-memory argument outside this engine."),
 "C19": dict(engine="e2", technique=E2T+"; status monitors on every tick",
   text="On every tick of the C06 scenario families: changed=false implies an identical view (matches, items, count, pattern); running=false implies every push of the current stream that returned before the tick began is counted and the snapshot pattern is the current pattern.",
   note="Same engine assumptions as C06."),
 "C20": dict(engine="e2", technique="exhaustive enumeration of handle histories (injector/clone/drop/restart/push/pattern edit/tick, tick branching on timeout vs completion) on the real Nucleo against a handle-count model, plus preemption-bounded schedules of short scripts that read the count in the middle of a run",
   text="Every history of up to 5 (thorough 6) operations over {take, clone, drop x2, restart(true), restart(false), push, tick}; after every operation active_injectors() must equal the number of live handles created for the current stream.",
   note="Bounded depth; at most two tracked handle slots are cloned/dropped."),
}
PLANNED = {
 "C06":"check not built yet (planned: controlled scheduler over the real threads, DESIGN.md 2.2)",
 "C07":"check not built yet (planned: controlled scheduler + history enumeration)",
 "C08":"check not built yet (planned: loom on the real boxcar.rs)",
 "C09":"check not built yet (planned: loom on the real boxcar.rs)",
 "C10":"check not built yet (planned: exhaustive shape enumeration of the slab layout + history enumeration)",
 "C11":"check not built yet (planned: history enumeration with drop tracking)",
 "C12":"check not built yet (planned: controlled scheduler)",
 "C13":"check not built yet (planned: controlled scheduler)",
 "C14":"check not built yet (planned: exhaustive pattern-string enumeration against a reference grammar)",
 "C15":"check not built yet (planned: exhaustive atom-list enumeration)",
 "C16":"check not built yet (planned: complete enumeration of all scalar values)",
 "C17":"check not built yet (planned: exhaustive string enumeration against unicode-segmentation)",
 "C18":"check not built yet (planned: exhaustive small inputs + every cancel moment)",
 "C19":"check not built yet (planned: controlled scheduler)",
 "C20":"check not built yet (planned: history enumeration against a handle-count model)",
}
def head(repo):
    try:
        return subprocess.check_output(["git","-C",repo,"log","--format=%h %s"],text=True).splitlines()
    except Exception:
        return []
hook_commits=[l.split()[0] for l in head("/repo") if l.split(" ",1)[1].startswith("verif hooks")]
m = {
 "version": 1,
 "setup_cmd": "./run.sh setup",
 "hooks": {
   "guard": "nucleo_verif",
   "enable": "RUSTFLAGS=--cfg nucleo_verif (set in /verif/harness/.cargo/config.toml; applies to nucleo and nucleo-matcher); the loom harness additionally sets --cfg nucleo_verif_loom for its own crate only",
   "baseline_off_cmd": "cd /repo && cargo test --workspace --no-fail-fast --offline",
   "source_commits": hook_commits,
   "add_only": True,
 },
 "engines": [
   {"name":"e1","path":"harness/e1","serves_properties":sorted(k for k,v in CHECKS.items() if v["engine"]=="e1"),"kind_free_text":E1},
   {"name":"e2","path":"harness/e1 (modules sched.rs, e2*.rs; same binary as e1)","serves_properties":sorted(k for k,v in CHECKS.items() if v["engine"]=="e2"),"kind_free_text":"controlled scheduler over real threads: token passing at cfg-gated hook points, monitor thread, stateless DFS with iterative preemption bounding, environment choices, replay"},
   {"name":"e3","path":"e3","serves_properties":sorted(k for k,v in CHECKS.items() if v["engine"]=="e3"),"kind_free_text":"loom (stateless DPOR exploration under the C11 memory model) on the real boxcar.rs included by path"},
 ],
 "checks": [],
 "not_applicable": [],
 "notes": "All checks are exhaustive enumerations within stated bounds executed on the real code; see DESIGN.md. known_findings.json lists genuine defects that are recorded (open) or repaired by fix: commits (fixed).",
}
for pid in sorted(CHECKS):
    c = CHECKS[pid]
    m["checks"].append({
      "property_id": pid,
      "quick_cmd": f"./run.sh check {pid} quick",
      "thorough_cmd": f"./run.sh check {pid} thorough",
      "evidence_file": f"/verif/evidence/{pid}.json",
      "replay_cmd_template": f"./run.sh replay {pid} {{path}}",
      "engine": c["engine"],
      "level_claimed": {"category":"model_checking","text":c["text"],"design_ref":f"DESIGN.md section 4, {pid}"},
      "level_note": c["note"],
      "technique": c["technique"],
    })
for pid in sorted(PLANNED):
    if pid not in CHECKS:
        m["not_applicable"].append({"property_id":pid,"reason":PLANNED[pid]})
json.dump(m, open(os.path.join(ROOT,"MANIFEST.json"),"w"), indent=1)
print("MANIFEST.json written:", len(m["checks"]), "checks,", len(m["not_applicable"]), "not applicable")
