#!/usr/bin/env python3
"""seed_meta.py <name> <property> <needs> [caught_by] - writes /verif/seeded/<name>/meta.json from the confirmation log"""
import sys,json,os
name,prop,needs=sys.argv[1:4]
caught=sys.argv[4] if len(sys.argv)>4 else None
d=f"/verif/seeded/{name}"
log=open(f"{d}/confirm.log").read().splitlines()
meta={"name":name,"breaks_property":prop,"needs_to_manifest":needs,
      "origin":"independent sub-agent given only the property text and a scratch worktree",
      "confirmed":{"lines":log},
      "files":sorted(os.listdir(d)),
      "caught_by":caught}
json.dump(meta,open(f"{d}/meta.json","w"),indent=1,ensure_ascii=False)
print("meta written for",name)
