#!/usr/bin/env bash
# shadow.sh make            - copies the machinery to /tmp/shadow/verif bound to a scratch worktree of
#                             /repo at /tmp/shadow/repo (so that seeded changes can be tried while a
#                             long run is using /repo itself). Development aid only: registered checks
#                             and committed evidence always come from /verif run against /repo.
# shadow.sh sync            - like make, but leaves the scratch worktree on its current commit
# shadow.sh try <ID> <patch> [tier] - applies the patch to the scratch worktree, runs the check, reverts
# shadow.sh rm              - removes everything again
set -u
S=/tmp/shadow
case "${1:-}" in
  make|sync)
    mkdir -p $S
    [ -d $S/repo ] || git -C /repo worktree add -q $S/repo HEAD || exit 2
    # sync: keep whatever the scratch worktree is on (e.g. a hook change being developed)
    [ "$1" = sync ] || git -C $S/repo checkout -q --detach "$(git -C /repo rev-parse HEAD)"
    rsync -a --delete --exclude target --exclude 'target-*' --exclude .git --exclude replays --exclude evidence --exclude seeded /verif/ $S/verif/
    mkdir -p $S/verif/evidence $S/verif/replays
    grep -rl "/repo" $S/verif/harness $S/verif/e3 --include=*.toml --include=*.rs | xargs sed -i "s#\"/repo#\"$S/repo#g"
    ;;
  try)
    ID="$2"; P="$3"; TIER="${4:-quick}"
    [ -z "$(git -C $S/repo status --porcelain)" ] || { echo "shadow repo not clean"; exit 2; }
    git -C $S/repo apply "$P" || exit 2
    (cd $S/verif && ./run.sh check "$ID" "$TIER"); rc=$?
    git -C $S/repo checkout -- .
    echo "shadow check $ID $TIER exit $rc"
    ;;
  rm)
    git -C /repo worktree remove --force $S/repo; git -C /repo worktree prune; rm -rf $S
    ;;
  *) echo "usage: shadow.sh make|sync|try <ID> <patch> [tier]|rm"; exit 2;;
esac
