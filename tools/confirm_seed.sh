#!/usr/bin/env bash
# confirm_seed.sh <property id> <seed name> <agent worktree> <demo file relative path> <demo cargo args...>
# Confirms a seeded change independently in a fresh scratch worktree (applies, compiles, pinned
# suite passes, demo fails with / passes without the change), then runs the property's quick
# check against it in /repo and reverts. Stores everything under /verif/seeded/<name>/.
set -u
# SHADOW=1: run the check part against the shadow copy (tools/shadow.sh make) instead of /repo itself
if [ "${SHADOW:-0}" = 1 ]; then CHECK_REPO=/tmp/shadow/repo; CHECK_VERIF=/tmp/shadow/verif; else CHECK_REPO=/repo; CHECK_VERIF=/verif; fi
ID="$1"; NAME="$2"; WT="$3"; DEMO="$4"; shift 4
OUT="/verif/seeded/$NAME"; mkdir -p "$OUT"
CF="/tmp/cf/$NAME"; rm -rf "$CF"; mkdir -p /tmp/cf
git -C /repo worktree add -q "$CF" HEAD || exit 2
cp "$WT/SEED/patch.diff" "$OUT/patch.diff"
cp "$WT/$DEMO" "$OUT/$(basename "$DEMO")"
[ -f "$WT/SEED/notes.md" ] && cp "$WT/SEED/notes.md" "$OUT/agent_notes.md"
res() { echo "$1" | tee -a "$OUT/confirm.log"; }
: > "$OUT/confirm.log"
cd "$CF"
if ! git apply "$OUT/patch.diff"; then res "patch does not apply"; exit 1; fi
suite=$(CARGO_TARGET_DIR=/tmp/cf/target-$NAME cargo test --workspace --no-fail-fast --offline 2>&1 | grep -E "^test result" | awk '{p+=$4; f+=$6} END {print p" passed "f" failed"}')
res "pinned suite with the change: $suite"
mkdir -p "$(dirname "$CF/$DEMO")"; cp "$WT/$DEMO" "$CF/$DEMO"
CARGO_TARGET_DIR=/tmp/cf/target-$NAME cargo test --offline "$@" >/tmp/cf/demo-with-$NAME.log 2>&1; with=$?
res "demo with the change: exit $with ($(grep -E '^test result' /tmp/cf/demo-with-$NAME.log | tail -1))"
git checkout -q -- . 
CARGO_TARGET_DIR=/tmp/cf/target-$NAME cargo test --offline "$@" >/tmp/cf/demo-without-$NAME.log 2>&1; without=$?
res "demo without the change: exit $without ($(grep -E '^test result' /tmp/cf/demo-without-$NAME.log | tail -1))"
cd /verif
git -C /repo worktree remove --force "$CF"; rm -rf /tmp/cf/target-$NAME
# now the check
if [ -n "$(git -C $CHECK_REPO status --porcelain)" ]; then res "/repo not clean, refusing"; exit 2; fi
git -C $CHECK_REPO apply "$OUT/patch.diff" || { res "patch does not apply to /repo"; exit 1; }
for tier in quick; do
  (cd $CHECK_VERIF && ./run.sh check "$ID" $tier) > "$OUT/check-$tier.log" 2>&1; rc=$?
  res "check $ID $tier against the change: exit $rc; $(grep -c '^VIOLATION' "$OUT/check-$tier.log") VIOLATION lines; $(grep '^SUMMARY' "$OUT/check-$tier.log" | cut -c1-200)"
  grep '^VIOLATION' "$OUT/check-$tier.log" | cut -c1-300 | head -5 >> "$OUT/confirm.log"
done
git -C $CHECK_REPO checkout -- .
res "reverted: $(git -C $CHECK_REPO status --porcelain | wc -l) dirty files"
