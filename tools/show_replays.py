#!/usr/bin/env python3
"""Prints the cases of replay files in a compact form: show_replays.py '<glob>'"""
import json,glob,sys
for f in sorted(glob.glob(sys.argv[1])):
    d=json.load(open(f)); print('==',f.split('/')[-1], '|', d['what'][:90], '|', d['occurrences'])
    for c in d['cases']:
        if isinstance(c,dict) and 'haystack' in c:
            extra={k:v for k,v in c.items() if k not in('cfg','haystack','needle')}
            print('   ', c.get('cfg'), repr(c['haystack']['text']), repr(c['needle']['text']), json.dumps(extra, ensure_ascii=False))
        else:
            print('   ', json.dumps(c, ensure_ascii=False)[:400])
