#!/usr/bin/env bash
# confirm_seed_unit.sh <property id> <seed name> <agent worktree> <source file holding patch+demo> <cargo test args...>
# Like confirm_seed.sh for demonstrations that are unit tests appended to a library source file.
set -u
# SHADOW=1: run the check part against the shadow copy (tools/shadow.sh make) instead of /repo itself
if [ "${SHADOW:-0}" = 1 ]; then CHECK_REPO=/tmp/shadow/repo; CHECK_VERIF=/tmp/shadow/verif; else CHECK_REPO=/repo; CHECK_VERIF=/verif; fi
ID="$1"; NAME="$2"; WT="$3"; SRC="$4"; shift 4
OUT="/verif/seeded/$NAME"; mkdir -p "$OUT"
CF="/tmp/cf/$NAME"; rm -rf "$CF"; mkdir -p /tmp/cf
git -C /repo worktree add -q "$CF" HEAD || exit 2
cp "$WT/SEED/patch.diff" "$OUT/patch.diff"
[ -f "$WT/SEED/notes.md" ] && cp "$WT/SEED/notes.md" "$OUT/agent_notes.md"
res() { echo "$1" | tee -a "$OUT/confirm.log"; }
: > "$OUT/confirm.log"
cd "$CF"
if ! git apply "$OUT/patch.diff"; then res "patch does not apply"; exit 1; fi
suite=$(CARGO_TARGET_DIR=/tmp/cf/target-$NAME cargo test --workspace --no-fail-fast --offline 2>&1 | grep -E "^test result" | awk '{p+=$4; f+=$6} END {print p" passed "f" failed"}')
res "pinned suite with the change: $suite"
cp "$WT/$SRC" "$CF/$SRC"
CARGO_TARGET_DIR=/tmp/cf/target-$NAME cargo test --offline "$@" >/tmp/cf/demo-with-$NAME.log 2>&1; with=$?
res "demo (unit tests appended to $SRC: cargo test --offline $*) with the change: exit $with ($(grep -E '^test result' /tmp/cf/demo-with-$NAME.log | tail -1))"
git apply -R "$OUT/patch.diff" || res "cannot reverse-apply the patch under the demo"
git diff > "$OUT/demo_unit_test.diff"
CARGO_TARGET_DIR=/tmp/cf/target-$NAME cargo test --offline "$@" >/tmp/cf/demo-without-$NAME.log 2>&1; without=$?
res "demo without the change: exit $without ($(grep -E '^test result' /tmp/cf/demo-without-$NAME.log | tail -1))"
cd /verif
git -C /repo worktree remove --force "$CF"; rm -rf /tmp/cf/target-$NAME
if [ -n "$(git -C $CHECK_REPO status --porcelain)" ]; then res "/repo not clean, refusing"; exit 2; fi
git -C $CHECK_REPO apply "$OUT/patch.diff" || { res "patch does not apply to /repo"; exit 1; }
(cd $CHECK_VERIF && ./run.sh check "$ID" quick) > "$OUT/check-quick.log" 2>&1; rc=$?
res "check $ID quick against the change: exit $rc; $(grep -c '^VIOLATION' "$OUT/check-quick.log") VIOLATION lines; $(grep '^SUMMARY' "$OUT/check-quick.log" | cut -c1-200)"
grep '^VIOLATION' "$OUT/check-quick.log" | cut -c1-300 | head -5 >> "$OUT/confirm.log"
git -C $CHECK_REPO checkout -- .
res "reverted: $(git -C $CHECK_REPO status --porcelain | wc -l) dirty files"
