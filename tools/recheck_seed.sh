#!/usr/bin/env bash
# recheck_seed.sh <property id> <seed name> - re-runs the property's quick check against an already
# confirmed seeded change (after the check was strengthened) and rewrites the check lines of its
# confirm.log, keeping a note of the earlier miss.
set -u
# SHADOW=1: run the check part against the shadow copy (tools/shadow.sh make) instead of /repo itself
if [ "${SHADOW:-0}" = 1 ]; then CHECK_REPO=/tmp/shadow/repo; CHECK_VERIF=/tmp/shadow/verif; else CHECK_REPO=/repo; CHECK_VERIF=/verif; fi
ID="$1"; NAME="$2"; OUT="/verif/seeded/$NAME"
[ -f "$OUT/patch.diff" ] || { echo "no such seed"; exit 2; }
if [ -n "$(git -C $CHECK_REPO status --porcelain)" ]; then echo "/repo not clean, refusing"; exit 2; fi
old=$(grep -E "^check $ID quick against the change" "$OUT/confirm.log" | head -1 | cut -c1-60)
grep -vE "^check |^VIOLATION|^reverted|^before strengthening" "$OUT/confirm.log" > "$OUT/confirm.log.new"; mv "$OUT/confirm.log.new" "$OUT/confirm.log"
res() { echo "$1" | tee -a "$OUT/confirm.log"; }
case "$old" in *"exit 0"*) res "before strengthening: $old (missed)";; esac
git -C $CHECK_REPO apply "$OUT/patch.diff" || { res "patch does not apply to /repo"; exit 1; }
cd $CHECK_VERIF
(cd $CHECK_VERIF && ./run.sh check "$ID" quick) > "$OUT/check-quick.log" 2>&1; rc=$?
res "check $ID quick against the change: exit $rc; $(grep -c '^VIOLATION' "$OUT/check-quick.log") VIOLATION lines; $(grep '^SUMMARY' "$OUT/check-quick.log" | cut -c1-200)"
grep '^VIOLATION' "$OUT/check-quick.log" | cut -c1-300 | head -5 >> "$OUT/confirm.log"
git -C $CHECK_REPO checkout -- .
res "reverted: $(git -C $CHECK_REPO status --porcelain | wc -l) dirty files"
