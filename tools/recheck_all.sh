#!/usr/bin/env bash
# recheck_all.sh [name-prefix] - applies every stored seeded change to the shadow worktree in turn
# (tools/shadow.sh make first), runs the quick check of the property it was made for (or the one
# named in meta.json "checked_by") and prints one line per seed: CAUGHT / MISSED / MACHINERY.
set -u
S=/tmp/shadow
pre="${1:-}"
for d in /verif/seeded/${pre}*/; do
  n=$(basename "$d")
  [ -f "$d/patch.diff" ] || continue
  prop=$(python3 -c "import json;m=json.load(open('$d/meta.json'));print(m.get('checked_by') or m['breaks_property'])" 2>/dev/null) || continue
  if [ -n "$(git -C $S/repo status --porcelain)" ]; then echo "shadow repo dirty"; exit 2; fi
  if ! git -C $S/repo apply "$d/patch.diff" 2>/dev/null; then echo "$n $prop PATCH-DOES-NOT-APPLY"; continue; fi
  out=$(cd $S/verif && ./run.sh check "$prop" quick 2>&1); rc=$?
  git -C $S/repo checkout -- .
  case $rc in
    1) echo "$n $prop CAUGHT ($(echo "$out" | grep -c '^VIOLATION') violation lines)";;
    0) echo "$n $prop MISSED";;
    *) echo "$n $prop MACHINERY rc=$rc $(echo "$out" | grep MACHINERY | head -1 | cut -c1-120)";;
  esac
done
