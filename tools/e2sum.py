#!/usr/bin/env python3
"""Compact summary of an `e1 e2-child` JSON line read from stdin."""
import sys,json
line=[l for l in sys.stdin.read().splitlines() if l.startswith('{')][-1]
d=json.loads(line)
print({k:d[k] for k in ['executions','points','scenarios','capped','nontrivial','outcomes','other_props','bounds']})
for v in d['violations']:
    print('VIOL',v['sig'],v['count'],v['what'][:300])
    ex=v['examples'][0]; print('   scenario',ex['scenario'],'schedule',ex['schedule'])
    if len(sys.argv)>1:
        print('\n'.join('     '+e for e in ex['events'][-int(sys.argv[1]):]))
