#!/usr/bin/env python3
"""Derives the C16 reference tables from Python's unicodedata (the sandbox has no UCD files).

F <cp> <fold>   simple case folding (statuses C+S): casefold() if it is one character, else
                lower() if that is one character, else the character itself; only cp with
                fold != cp are listed.
U <cp>          code point unassigned (category Cn) in this unicodedata version: the oracle does
                not constrain its folding (a newer table may legitimately map it).
N <cp> <base>   cp inside a normalisation block whose NFKD is an ASCII letter/digit followed
                only by combining marks.
"""
import sys, unicodedata
out = sys.stdout
out.write("V %s\n" % unicodedata.unidata_version)
BLOCKS = [(0xA0, 0x29F), (0x1E00, 0x1EFF), (0x2070, 0x209F)]
for cp in range(0x110000):
    if 0xD800 <= cp <= 0xDFFF:
        continue
    c = chr(cp)
    if unicodedata.category(c) == "Cn":
        out.write("U %X\n" % cp)
        continue
    f = c.casefold()
    if len(f) != 1:
        f = c.lower()
        if len(f) != 1:
            f = c
    if f != c:
        out.write("F %X %X\n" % (cp, ord(f)))
for lo, hi in BLOCKS:
    for cp in range(lo, hi + 1):
        c = chr(cp)
        d = unicodedata.normalize("NFKD", c)
        if d and d[0].isascii() and d[0].isalnum() and all(unicodedata.category(x).startswith("M") for x in d[1:]):
            if len(d) >= 1 and d != c:
                out.write("N %X %X\n" % (cp, ord(d[0])))
