//! C11 (sequential part) — every injected item is dropped exactly once, and only after it is
//! unreachable. Every history of push/extend operations (honest and lying iterators, panicking
//! fill callbacks) up to a depth bound on the real lock-free vector (through the cfg-gated
//! facade), from several capacities / prefill states, against a reference model of the vector's
//! content, a drop log and a counting allocator for the column storage.

use std::cell::RefCell;
use std::panic::{catch_unwind, AssertUnwindSafe};
use std::rc::Rc;

use common::{json, par_shards, threads, Acc, Report, Value};
use nucleo::verif::VerifVec;
use nucleo::Utf32String;

use crate::talloc;

type Log = Rc<RefCell<Vec<u32>>>;

struct Tracked {
    id: u32,
    log: Log,
}
impl Drop for Tracked {
    fn drop(&mut self) {
        self.log.borrow_mut().push(self.id);
    }
}

/// The item type a history is run with: one that logs its destruction, and a plain-data one
/// (no drop glue: its column storage must be released all the same).
trait Kind {
    type T;
    const DROPS: bool;
    const NAME: &'static str;
    fn mk(id: u32, log: &Log) -> Self::T;
    fn id(t: &Self::T) -> u32;
}
struct Logging;
impl Kind for Logging {
    type T = Tracked;
    const DROPS: bool = true;
    const NAME: &'static str = "drop-logging item";
    fn mk(id: u32, log: &Log) -> Tracked {
        Tracked { id, log: log.clone() }
    }
    fn id(t: &Tracked) -> u32 {
        t.id
    }
}
struct Plain;
impl Kind for Plain {
    type T = u32;
    const DROPS: bool = false;
    const NAME: &'static str = "plain u32 item";
    fn mk(id: u32, _: &Log) -> u32 {
        id
    }
    fn id(t: &u32) -> u32 {
        *t
    }
}

#[derive(Clone, Copy, Debug, PartialEq, Eq)]
pub enum Op {
    Push,
    PushPanic(u32),
    Extend(u32),
    ExtendOver200,
    ExtendOverFar,
    ExtendUnder,
    ExtendZeroLiar,
    ExtendPanic(u32),
}

pub const OPS: [Op; 12] = [
    Op::Push,
    Op::Extend(1),
    Op::Extend(3),
    Op::Extend(40),
    Op::PushPanic(0),
    Op::PushPanic(1),
    Op::ExtendOver200,
    Op::ExtendOverFar,
    Op::ExtendUnder,
    Op::ExtendZeroLiar,
    Op::ExtendPanic(0),
    Op::ExtendPanic(2),
];

struct Liar<I> {
    inner: I,
    reported: usize,
}
impl<I: Iterator> Iterator for Liar<I> {
    type Item = I::Item;
    fn next(&mut self) -> Option<I::Item> {
        self.inner.next()
    }
}
impl<I: Iterator> ExactSizeIterator for Liar<I> {
    fn len(&self) -> usize {
        self.reported
    }
}

fn col_len(id: u32, col: usize) -> usize {
    talloc::TRACK_LO + 2 * (id as usize * 2 + col)
}

fn fill_ok<K: Kind>(t: &K::T, cols: &mut [Utf32String]) {
    for (k, c) in cols.iter_mut().enumerate() {
        *c = Utf32String::Unicode(vec!['x'; col_len(K::id(t), k)].into_boxed_slice());
    }
}

/// start of bucket b: 32 * (2^b - 1)
fn bucket_start(b: u32) -> u32 {
    32 * ((1u32 << b) - 1)
}
fn bucket_of(i: u32) -> u32 {
    let mut b = 0;
    while bucket_start(b + 1) <= i {
        b += 1;
    }
    b
}

struct Model {
    slots: Vec<Option<u32>>,
    handed: Vec<u32>,
    next_id: u32,
}

impl Model {
    fn ids(&mut self, n: u32) -> Vec<u32> {
        let v: Vec<u32> = (self.next_id..self.next_id + n).collect();
        self.next_id += n;
        self.handed.extend_from_slice(&v);
        v
    }
}

pub struct Start {
    pub cap: u32,
    pub prefill: u32,
    pub cols: u32,
}

fn run_history(start: &Start, ops: &[Op], acc: &mut Acc, describe: &dyn Fn() -> Value) {
    run_history_k::<Logging>(start, ops, acc, describe);
    let plain = || {
        let mut d = describe();
        d["item_type"] = json!(Plain::NAME);
        d
    };
    run_history_k::<Plain>(start, ops, acc, &plain);
}

fn run_history_k<K: Kind>(start: &Start, ops: &[Op], acc: &mut Acc, describe: &dyn Fn() -> Value) {
    let log: Log = Rc::new(RefCell::new(Vec::new()));
    let mut model = Model {
        slots: Vec::new(),
        handed: Vec::new(),
        next_id: 0,
    };
    talloc::begin();
    let v: VerifVec<K::T> = VerifVec::with_capacity(start.cap, start.cols);
    let mk = |id: u32| K::mk(id, &log);
    let mut fail = |acc: &mut Acc, class: &str, what: String| {
        acc.violation(&format!("C11/seq/{class}"), &what, describe);
    };
    if start.prefill > 0 {
        let ids = model.ids(start.prefill);
        v.extend(ids.iter().map(|&i| mk(i)).collect::<Vec<_>>().into_iter(), fill_ok::<K>);
        model.slots.extend(ids.iter().map(|&i| Some(i)));
    }
    for (step, &op) in ops.iter().enumerate() {
        acc.transitions += 1;
        let before = model.slots.len() as u32;
        match op {
            Op::Push => {
                let id = model.ids(1)[0];
                let idx = v.push(mk(id), fill_ok::<K>);
                if idx != before {
                    fail(acc, "index", format!("step {step}: push returned index {idx}, expected {before}"));
                }
                model.slots.push(Some(id));
            }
            Op::PushPanic(k) => {
                let id = model.ids(1)[0];
                let r = catch_unwind(AssertUnwindSafe(|| {
                    v.push(mk(id), |_, cols| {
                        for c in cols.iter_mut().take(k as usize) {
                            // outside the tracked size window: a leaked partial column is tolerated
                            *c = Utf32String::Unicode(vec!['p'; 77].into_boxed_slice());
                        }
                        panic!("fill callback panics");
                    })
                }));
                if r.is_ok() {
                    fail(acc, "panic_swallowed", format!("step {step}: push returned although its fill callback panicked"));
                }
                model.slots.push(None);
            }
            Op::Extend(n) => {
                let ids = model.ids(n);
                v.extend(ids.iter().map(|&i| mk(i)).collect::<Vec<_>>().into_iter(), fill_ok::<K>);
                model.slots.extend(ids.iter().map(|&i| Some(i)));
            }
            Op::ExtendOver200 | Op::ExtendOverFar => {
                let reported = if op == Op::ExtendOver200 {
                    200
                } else {
                    // end three entries before the start of bucket b+3: lands in the last eighth
                    // of bucket b+2, so bucket b+3 is allocated eagerly while b+1/b+2 may stay empty
                    let b = bucket_of(before);
                    bucket_start(b + 3) - 3 - before
                };
                let ids = model.ids(10);
                let it = Liar {
                    inner: ids.iter().map(|&i| mk(i)).collect::<Vec<_>>().into_iter(),
                    reported: reported as usize,
                };
                let r = catch_unwind(AssertUnwindSafe(|| v.extend(it, fill_ok::<K>)));
                if r.is_err() {
                    fail(acc, "over_reporting_panics", format!("step {step}: extend with an over-reporting iterator panicked"));
                }
                model.slots.extend(ids.iter().map(|&i| Some(i)));
                model.slots.extend((10..reported).map(|_| None));
            }
            Op::ExtendUnder => {
                let ids = model.ids(3);
                let it = Liar {
                    inner: ids.iter().map(|&i| mk(i)).collect::<Vec<_>>().into_iter(),
                    reported: 2,
                };
                let r = catch_unwind(AssertUnwindSafe(|| v.extend(it, fill_ok::<K>)));
                if r.is_ok() {
                    fail(acc, "under_reporting_accepted", format!("step {step}: extend accepted more items than reported"));
                }
                model.slots.push(Some(ids[0]));
                model.slots.push(Some(ids[1]));
            }
            Op::ExtendZeroLiar => {
                let ids = model.ids(2);
                let it = Liar {
                    inner: ids.iter().map(|&i| mk(i)).collect::<Vec<_>>().into_iter(),
                    reported: 0,
                };
                let r = catch_unwind(AssertUnwindSafe(|| v.extend(it, fill_ok::<K>)));
                if r.is_ok() {
                    fail(acc, "zero_liar_accepted", format!("step {step}: extend accepted items from an iterator reporting length 0"));
                }
            }
            Op::ExtendPanic(j) => {
                let ids = model.ids(3);
                let bad = ids[j as usize];
                let r = catch_unwind(AssertUnwindSafe(|| {
                    v.extend(ids.iter().map(|&i| mk(i)).collect::<Vec<_>>().into_iter(), |t, cols| {
                        if K::id(t) == bad {
                            panic!("fill callback panics");
                        }
                        fill_ok::<K>(t, cols)
                    })
                }));
                if r.is_ok() {
                    fail(acc, "panic_swallowed", format!("step {step}: extend returned although a fill callback panicked"));
                }
                for (k, &i) in ids.iter().enumerate() {
                    model.slots.push(if (k as u32) < j { Some(i) } else { None });
                }
            }
        }
        // ---- after every operation: content and drop log against the model
        let count = model.slots.len() as u32;
        if v.count() != count {
            fail(acc, "count", format!("step {step}: count() = {}, model {}", v.count(), count));
        }
        for i in 0..count + 2 {
            let got = v.get(i);
            let want = model.slots.get(i as usize).copied().flatten();
            match (got, want) {
                (None, None) => {}
                (Some(item), Some(id)) => {
                    let cols_ok = item.matcher_columns.len() == start.cols as usize
                        && item.matcher_columns.iter().enumerate().all(|(k, c)| c.len() == col_len(id, k));
                    if K::id(item.data) != id || !cols_ok {
                        fail(acc, "content", format!("step {step}: get({i}) returns a wrong or torn item"));
                    }
                }
                (Some(_), None) => fail(acc, "content", format!("step {step}: get({i}) returns an item for an index nobody published")),
                (None, Some(_)) => fail(acc, "content", format!("step {step}: get({i}) lost a published item")),
            }
        }
        let mut snap_n = 0;
        for (i, item) in v.snapshot(0) {
            if item.is_some() != model.slots[i as usize].is_some() {
                fail(acc, "snapshot", format!("step {step}: snapshot iterator disagrees with get at {i}"));
            }
            snap_n += 1;
        }
        if snap_n != count {
            fail(acc, "snapshot", format!("step {step}: snapshot yields {snap_n} entries, count is {count}"));
        }
        let dropped = log.borrow();
        for &id in model.handed.iter().filter(|_| K::DROPS) {
            let published = model.slots.iter().any(|s| *s == Some(id));
            let n = dropped.iter().filter(|&&d| d == id).count();
            if published && n != 0 {
                fail(acc, "dropped_while_reachable", format!("step {step}: item {id} was dropped while the vector still holds it"));
            }
            if !published && n != 1 {
                fail(acc, "unpublished_item_drop_count", format!("step {step}: item {id} (never published) was dropped {n} times"));
            }
        }
    }
    let published: Vec<u32> = model.slots.iter().flatten().copied().collect();
    drop(v);
    let tally = talloc::end();
    let dropped = log.borrow();
    for &id in model.handed.iter().filter(|_| K::DROPS) {
        let n = dropped.iter().filter(|&&d| d == id).count();
        if n == 0 {
            let class = if published.contains(&id) { "leak_published_item" } else { "leak_unpublished_item" };
            fail(acc, class, format!("item {id} was never dropped (index {:?} of {})", model.slots.iter().position(|s| *s == Some(id)), model.slots.len()));
        } else if n > 1 {
            fail(acc, "double_drop", format!("item {id} was dropped {n} times"));
        }
    }
    if tally.double_frees > 0 {
        fail(acc, "column_double_free", format!("column storage freed twice ({} times, first of length {})", tally.double_frees, tally.first_double_free_len));
    }
    if tally.overflow {
        common::machinery_failure("allocator quarantine overflow");
    }
    for (len, a, f) in tally.sizes {
        let id = ((len - talloc::TRACK_LO) / 4) as u32;
        if a != 1 {
            common::machinery_failure("tracked column size allocated more than once: harness bug");
        }
        if f == 0 {
            fail(acc, "column_leak", format!("column storage of item {id} (length {len}) was never freed"));
        }
    }
    acc.outcome(&format!("published={} holes={}", published.len().min(3), model.slots.iter().filter(|s| s.is_none()).count().min(3)));
}

fn decode_ops(mut i: u64, out: &mut Vec<Op>) {
    out.clear();
    let k = OPS.len() as u64;
    let mut len = 0;
    let mut p = 1u64;
    while i >= p {
        i -= p;
        p *= k;
        len += 1;
    }
    out.resize(len, Op::Push);
    for pos in (0..len).rev() {
        out[pos] = OPS[(i % k) as usize];
        i /= k;
    }
}

fn starts() -> Vec<Start> {
    let mut v = Vec::new();
    for cols in [1, 2] {
        for cap in [0, 1, 40] {
            for prefill in [0, 27, 95] {
                v.push(Start { cap, prefill, cols });
            }
        }
    }
    v
}

fn describe(start: &Start, ops: &[Op]) -> Value {
    json!({"capacity": start.cap, "prefill": start.prefill, "columns": start.cols, "ops": ops.iter().map(|o| format!("{o:?}")).collect::<Vec<_>>()})
}

fn parse_op(s: &str) -> Op {
    OPS.iter()
        .copied()
        .find(|o| format!("{o:?}") == s)
        .unwrap_or_else(|| common::machinery_failure("unknown op in replay"))
}

pub fn replay_case(c: &Value, acc: &mut Acc) {
    let start = Start {
        cap: c["capacity"].as_u64().unwrap_or(0) as u32,
        prefill: c["prefill"].as_u64().unwrap_or(0) as u32,
        cols: c["columns"].as_u64().unwrap_or(1) as u32,
    };
    let ops: Vec<Op> = c["ops"].as_array().map(|a| a.iter().map(|o| parse_op(o.as_str().unwrap_or(""))).collect()).unwrap_or_default();
    let d = describe(&start, &ops);
    run_history(&start, &ops, acc, &|| d.clone());
}

pub fn run_seq(rep: &mut Report) {
    let depth = if rep.is_thorough() { 4 } else { 3 };
    let starts = starts();
    let nh = crate::dom::count_strings(OPS.len(), depth);
    let chunk = 16u64;
    let per_start = ((nh + chunk - 1) / chunk) as usize;
    let acc = par_shards(per_start * starts.len(), threads(), |shard, acc| {
        let start = &starts[shard / per_start];
        let lo = (shard % per_start) as u64 * chunk;
        let mut ops = Vec::new();
        for hi in lo..(lo + chunk).min(nh) {
            decode_ops(hi, &mut ops);
            acc.evaluations += 1;
            acc.states += 1;
            let lying = ops.iter().any(|o| !matches!(o, Op::Push | Op::Extend(_)));
            if lying && ops.len() >= 2 {
                acc.nontrivial += 1;
            }
            let r = catch_unwind(AssertUnwindSafe(|| run_history(start, &ops, acc, &|| describe(start, &ops))));
            if r.is_err() {
                let _ = talloc::end();
                acc.violation("C11/seq/unexpected_panic", "the vector panicked outside the documented cases", || describe(start, &ops));
            }
            if ops.len() == depth && hi % 1013 == 0 {
                acc.sample(|| describe(start, &ops));
            }
        }
    });
    rep.acc.merge(acc);
    rep.extra("sequential_histories", json!(nh * starts.len() as u64));
    rep.extra("sequential_depth", json!(depth));
    rep.extra("op_alphabet", json!(OPS.iter().map(|o| format!("{o:?}")).collect::<Vec<_>>()));
}


/// Classes of the sequential oracle that are about the *content* of the vector (C08) rather than
/// about destruction (C11).
const C08_CLASSES: [&str; 6] = ["index", "count", "content", "snapshot", "under_reporting_accepted", "zero_liar_accepted"];

/// Child mode for the C08 check (the loom parent merges this): every history of the C11
/// enumeration, judged only by the content oracle (indices handed out, count, every lookup and
/// the snapshot iterator against the reference model; lying iterators must be rejected or leave
/// holes, never publish an index nobody reserved).
/// One layout of the vector (capacity, columns, how the items got in) at one size: the sequential and
/// the parallel snapshot iterator from every start must yield exactly `start..count` in order,
/// each index once, with the published flag the model says (gaps are left by over-reporting batches).
fn snapshot_layout_case(cap: u32, cols: u32, n: u32, mode: u32, acc: &mut Acc) {
    struct Over(u32, u32, u32); // yields values lo.., claims `claimed`, delivers `real`
    impl Iterator for Over {
        type Item = u32;
        fn next(&mut self) -> Option<u32> {
            if self.2 == 0 {
                return None;
            }
            self.2 -= 1;
            self.0 += 1;
            Some(self.0 - 1)
        }
    }
    impl ExactSizeIterator for Over {
        fn len(&self) -> usize {
            self.1 as usize
        }
    }
    let v: nucleo::verif::VerifVec<u32> = nucleo::verif::VerifVec::with_capacity(cap, cols);
    let mut model: Vec<bool> = Vec::new();
    let fill = |_: &u32, c: &mut [nucleo::Utf32String]| {
        for x in c.iter_mut() {
            *x = "ab".into();
        }
    };
    match mode {
        // single pushes
        0 => {
            for i in 0..n {
                v.push(i, fill);
                model.push(true);
            }
        }
        // batches of 7
        1 => {
            let mut i = 0;
            while i < n {
                let k = 7.min(n - i);
                v.extend(Over(i, k, k), fill);
                model.extend(std::iter::repeat(true).take(k as usize));
                i += k;
            }
        }
        // one batch for everything
        2 => {
            v.extend(Over(0, n, n), fill);
            model.extend(std::iter::repeat(true).take(n as usize));
        }
        // over-reporting batches: every third reserved index stays unpublished
        _ => {
            let mut i = 0;
            while i < n {
                let k = 3.min(n - i);
                let real = if k == 3 { 2 } else { k };
                v.extend(Over(i, k, real), fill);
                for j in 0..k {
                    model.push(j < real);
                }
                i += k;
            }
        }
    }
    let count = model.len() as u32;
    acc.evaluations += 1;
    acc.states += 1;
    let describe = |what: &str, start: u32| json!({"capacity": cap, "columns": cols, "items": n, "layout": mode, "iterator": what, "start": start});
    if v.count() != count {
        acc.violation("C08/seq/count", "count() differs from the number of reserved indices", || describe("count", 0));
    }
    let starts: Vec<u32> = if count <= 130 { (0..=count).collect() } else { let mut s: Vec<u32> = vec![0, 1, 31, 32, 33, 95, 96, 97, 223, 224, 225, 479, 480, 481, 991, 992, 993, 1023, 1024, 1025, 2015, 2016, 2017, count / 2, count - 1, count]; s.retain(|&x| x <= count); s.sort(); s.dedup(); s };
    for &start in &starts {
        let want: Vec<(u32, bool)> = (start..count).map(|i| (i, model[i as usize])).collect();
        let seq: Vec<(u32, bool)> = v.snapshot(start).map(|(i, it)| (i, it.is_some())).collect();
        acc.transitions += 1;
        if seq != want {
            acc.violation("C08/seq/snapshot", "snapshot(start) does not yield start..count in order with the published items", || describe("snapshot", start));
        }
        for min_len in [1usize, 5] {
            let (end, par) = v.par_snapshot_collect(start, min_len);
            acc.transitions += 1;
            if end != count || par != want {
                acc.violation("C08/seq/snapshot", "par_snapshot(start) does not yield start..count exactly once in order with the published items", || describe("par_snapshot", start));
            }
        }
    }
}

/// Reservations beyond the 32-bit index space (reachable in two calls with iterators that
/// over-report their length): the count never decreases, never falls below the completed pushes,
/// and the items that were published stay readable. (No iteration here: the count is ~2^31.)
fn reservation_overflow_cases(rep: &mut Report) {
    struct Empty(usize);
    impl Iterator for Empty {
        type Item = u32;
        fn next(&mut self) -> Option<u32> {
            None
        }
    }
    impl ExactSizeIterator for Empty {
        fn len(&self) -> usize {
            self.0
        }
    }
    let mut acc = Acc::new();
    for real in [0u32, 1, 20, 33] {
        for claims in [vec![1usize << 31, 1 << 31], vec![(1 << 31) - 1, 1 << 31, 1 << 31], vec![u32::MAX as usize - 40, 10, 1 << 20], vec![u32::MAX as usize, 5]] {
            acc.evaluations += 1;
            acc.states += 1;
            acc.nontrivial += 1;
            let v: VerifVec<u32> = VerifVec::with_capacity(64, 1);
            for i in 0..real {
                v.push(i, |_, c| c[0] = "ab".into());
            }
            let describe = |what: String| json!({"real_pushes": real, "claimed_lengths": claims, "observation": what});
            let mut last = v.count();
            let mut check = |acc: &mut Acc, when: String| {
                let c = v.count();
                if c < last {
                    acc.violation("C08/seq/count", "count() decreased", || describe(format!("{when}: count went from {last} to {c}")));
                }
                if c < real {
                    acc.violation("C08/seq/count", "count() is below the number of completed pushes", || describe(format!("{when}: count {c}")));
                }
                last = last.max(c);
                for i in 0..real {
                    if v.get(i).map(|it| *it.data) != Some(i) {
                        acc.violation("C08/seq/content", "a published item is no longer readable", || describe(format!("{when}: get({i})")));
                    }
                }
            };
            for (k, &claim) in claims.iter().enumerate() {
                acc.transitions += 1;
                let _ = catch_unwind(AssertUnwindSafe(|| v.extend(Empty(claim), |_, _| {})));
                check(&mut acc, format!("after over-reporting batch {k}"));
            }
            acc.transitions += 1;
            let r = catch_unwind(AssertUnwindSafe(|| v.push(777, |_, c| c[0] = "ab".into())));
            check(&mut acc, "after a further push".into());
            if let Ok(idx) = r {
                if v.get(idx).map(|it| *it.data) != Some(777) {
                    acc.violation("C08/seq/content", "a push that returned an index is not readable at that index", || describe(format!("push returned {idx}")));
                }
            }
        }
    }
    rep.acc.merge(acc);
}

fn snapshot_layouts(rep: &mut Report) {
    let thorough = rep.is_thorough();
    let pool = rayon::ThreadPoolBuilder::new().num_threads(4).build().unwrap();
    let mut sizes: Vec<u32> = (0..=130).collect();
    sizes.extend([223, 224, 225, 479, 480, 481, 991, 992, 993, 1023, 1024, 1025]);
    if thorough {
        sizes.extend(131..=520);
        sizes.extend([2015, 2016, 2017, 4063, 4064, 4065]);
    }
    let mut acc = Acc::new();
    pool.install(|| {
        for &cap in &[0u32, 1, 32, 33, 1024] {
            for cols in [1u32, 2] {
                for &n in &sizes {
                    for mode in 0..4 {
                        if !thorough && cols == 2 && n > 40 {
                            continue;
                        }
                        let r = std::panic::catch_unwind(std::panic::AssertUnwindSafe(|| snapshot_layout_case(cap, cols, n, mode, &mut acc)));
                        if r.is_err() {
                            acc.violation("C08/seq/snapshot", "building or iterating a vector layout panicked", || json!({"capacity": cap, "columns": cols, "items": n, "layout": mode}));
                        }
                    }
                }
            }
        }
    });
    acc.nontrivial += acc.evaluations;
    rep.acc.merge(acc);
}

pub fn c08_overflow_child(tier: &str) -> ! {
    crate::dom::quiet_panics();
    let mut rep = Report::new("C08", tier);
    reservation_overflow_cases(&mut rep);
    let viols: Vec<Value> = rep.acc.violations.iter().map(|(sig, c)| json!({"sig": sig, "what": c.what, "count": c.count, "examples": c.examples})).collect();
    println!("{}", json!({"cases": rep.acc.evaluations, "transitions": rep.acc.transitions, "violations": viols}));
    std::process::exit(0)
}

pub fn c08_seq_child(tier: &str) -> ! {
    crate::dom::quiet_panics();
    let mut rep = Report::new("C08", tier);
    run_seq(&mut rep);
    snapshot_layouts(&mut rep);
    // reservations beyond the index space run in a process of their own: a change that makes the
    // library allocate for the claimed length dies of an allocation failure, which cannot be caught
    let exe = std::env::current_exe().unwrap_or_else(|_| common::machinery_failure("current_exe"));
    match std::process::Command::new(&exe).args(["c08-overflow", tier]).output() {
        Ok(out) if out.status.success() => {
            let stdout = String::from_utf8_lossy(&out.stdout).to_string();
            let v: Value = serde_json::from_str(stdout.lines().last().unwrap_or("")).unwrap_or(Value::Null);
            rep.acc.evaluations += v["cases"].as_u64().unwrap_or(0);
            rep.acc.states += v["cases"].as_u64().unwrap_or(0);
            rep.acc.transitions += v["transitions"].as_u64().unwrap_or(0);
            rep.acc.nontrivial += v["cases"].as_u64().unwrap_or(0);
            for vl in v["violations"].as_array().cloned().unwrap_or_default() {
                let sig = vl["sig"].as_str().unwrap_or("C08/seq/count").to_owned();
                let what = vl["what"].as_str().unwrap_or("").to_owned();
                for ex in vl["examples"].as_array().cloned().unwrap_or_default() {
                    rep.acc.violation(&sig, &what, || ex);
                }
            }
        }
        Ok(out) => {
            let err: String = String::from_utf8_lossy(&out.stderr).lines().filter(|l| !l.trim_start().starts_with(|c: char| c.is_ascii_digit()) && !l.trim_start().starts_with("at ")).take(3).collect::<Vec<_>>().join(" | ");
            rep.acc.violation("C08/seq/count", "the process died while reservations beyond the index space were made (allocation failure or crash)", || json!({"status": format!("{:?}", out.status), "stderr": err.chars().take(300).collect::<String>(), "family": "reservation overflow"}));
        }
        Err(e) => common::machinery_failure(&format!("cannot run the overflow child: {e}")),
    }
    let mut viols = Vec::new();
    for (sig, class) in rep.acc.violations.iter() {
        let cl = sig.rsplit('/').next().unwrap_or("");
        if C08_CLASSES.contains(&cl) {
            viols.push(json!({"sig": format!("C08/seq/{cl}"), "what": class.what, "count": class.count, "examples": class.examples}));
        }
    }
    println!(
        "{}",
        json!({"histories": rep.acc.evaluations, "transitions": rep.acc.transitions, "nontrivial": rep.acc.nontrivial, "outcomes": rep.acc.outcomes.len(),
               "samples": rep.acc.samples.iter().take(2).collect::<Vec<_>>(), "violations": viols})
    );
    std::process::exit(0)
}

pub fn replay_case_c08(c: &Value, acc: &mut Acc) {
    if let (Some(cap), Some(cols), Some(n), Some(mode)) = (c["capacity"].as_u64(), c["columns"].as_u64(), c["items"].as_u64(), c["layout"].as_u64()) {
        let pool = rayon::ThreadPoolBuilder::new().num_threads(4).build().unwrap();
        pool.install(|| snapshot_layout_case(cap as u32, cols as u32, n as u32, mode as u32, acc));
        return;
    }
    let mut inner = Acc::new();
    replay_case(c, &mut inner);
    for (sig, class) in inner.violations {
        let cl = sig.rsplit('/').next().unwrap_or("").to_owned();
        if C08_CLASSES.contains(&cl.as_str()) {
            for ex in class.examples {
                acc.violation(&format!("C08/seq/{cl}"), &class.what, || ex);
            }
        }
    }
}
