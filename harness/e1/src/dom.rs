//! Bounded-exhaustive input domains: every haystack over an alphabet up to a length bound, every
//! already-normalised needle over the image of that alphabet, every configuration.

use std::panic::{catch_unwind, AssertUnwindSafe};

use common::{json, par_shards, show, threads, Acc, Value};
use nucleo_matcher::Matcher;

use crate::algos::Text;
use crate::refm::{norm, Cfg, HayView};

pub const ASCII7: &[char] = &['a', 'b', 'A', '1', ' ', '/', '-'];
pub const ASCII5: &[char] = &['a', 'b', 'A', ' ', '/'];
/// lower with a folding (ς→σ), its target, upper+normalisable, lower+normalisable, long s
/// (folds to ASCII), Kelvin sign (folds to ASCII), caseless letter, non-ASCII whitespace,
/// non-ASCII non-word.
pub const NONASCII9: &[char] = &[
    'ä', 'Ä', 'ς', 'σ', 'ſ', '\u{212A}', 'あ', '\u{3000}', '—',
];

/// One representative per *behavioural signature* over all Unicode scalar values: the character
/// class, whether Latin normalisation / case folding change the character, whether the results
/// are ASCII, the class of the normalised character, whether the normalised character still
/// folds, whitespace-ness. Every shortcut of the per-character code paths that distinguishes
/// characters by these traits is therefore represented, without naming the characters by hand
/// (this is how U+0130, a caseless-class letter that normalises to an upper-case ASCII letter,
/// gets into the alphabet).
pub fn signature_alphabet() -> Vec<char> {
    use crate::refm::{class, Cfg};
    use nucleo_matcher::chars;
    let cfg = Cfg { ignore_case: true, normalize: true, paths: false, prefer_prefix: false };
    let mut seen: std::collections::BTreeMap<String, char> = std::collections::BTreeMap::new();
    for cp in 0x80u32..0x110000 {
        let Some(c) = char::from_u32(cp) else { continue };
        let n = chars::normalize(c);
        let f = chars::to_lower_case(c);
        let nf = chars::to_lower_case(n);
        let sig = format!(
            "{:?}/{}{}{}{}{}{}/{:?}/{}",
            class(c, cfg),
            (n != c) as u8,
            n.is_ascii() as u8,
            (f != c) as u8,
            f.is_ascii() as u8,
            (nf != n) as u8,
            (chars::normalize(f) != f) as u8,
            class(n, cfg),
            c.is_whitespace() as u8
        );
        seen.entry(sig).or_insert(c);
    }
    seen.into_values().collect()
}

#[derive(Clone, Debug)]
pub struct Domain {
    pub name: String,
    pub alpha: Vec<char>,
    pub max_h: usize,
    pub max_n: usize,
    pub cfgs: Vec<Cfg>,
}

pub fn count_strings(k: usize, max_len: usize) -> u64 {
    let mut total = 0u64;
    let mut p = 1u64;
    for _ in 0..=max_len {
        total += p;
        p *= k as u64;
    }
    total
}

/// Decodes the `idx`-th string (shorter first, then lexicographic in alphabet order).
pub fn decode(mut idx: u64, alpha: &[char], out: &mut Vec<char>) {
    out.clear();
    let k = alpha.len() as u64;
    let mut len = 0usize;
    let mut p = 1u64;
    while idx >= p {
        idx -= p;
        p *= k;
        len += 1;
    }
    out.resize(len, alpha[0]);
    for pos in (0..len).rev() {
        out[pos] = alpha[(idx % k) as usize];
        idx /= k;
    }
}

pub fn needle_alphabet(alpha: &[char], cfg: Cfg) -> Vec<char> {
    let mut v: Vec<char> = Vec::new();
    for &c in alpha {
        let n = norm(c, cfg);
        if !v.contains(&n) {
            v.push(n);
        }
    }
    v
}

impl Domain {
    pub fn new(name: &str, alpha: &[char], max_h: usize, max_n: usize, cfgs: Vec<Cfg>) -> Domain {
        Domain {
            name: name.to_owned(),
            alpha: alpha.to_vec(),
            max_h,
            max_n,
            cfgs,
        }
    }
    pub fn haystacks(&self) -> u64 {
        count_strings(self.alpha.len(), self.max_h)
    }
    pub fn size(&self) -> u64 {
        let mut per_hay = 0u64;
        for &cfg in &self.cfgs {
            per_hay += count_strings(needle_alphabet(&self.alpha, cfg).len(), self.max_n);
        }
        self.haystacks() * per_hay
    }
    pub fn describe(&self) -> Value {
        json!({
            "name": self.name,
            "haystack_alphabet": show(&self.alpha),
            "max_haystack_len": self.max_h,
            "max_needle_len": self.max_n,
            "configurations": self.cfgs.iter().map(|c| c.tag()).collect::<Vec<_>>(),
            "haystacks": self.haystacks(),
            "cases": self.size(),
        })
    }
}

pub struct Case<'a> {
    pub cfg: Cfg,
    pub hay: &'a Text,
    pub view: &'a HayView,
    pub needle: &'a Text,
}

impl Case<'_> {
    pub fn to_json(&self) -> Value {
        json!({
            "cfg": self.cfg.tag(),
            "haystack": show(&self.hay.chars),
            "needle": show(&self.needle.chars),
        })
    }
}

pub struct Ctx {
    pub matcher: Matcher,
    pub idx: Vec<u32>,
    pub idx2: Vec<u32>,
}

/// Runs `f` on every case of the domain (complete by construction). A panic escaping `f` is
/// recorded as a violation with signature `<id>/panic` and the enumeration continues with a
/// fresh matcher.
pub fn for_each_case<F>(id: &str, dom: &Domain, f: F) -> Acc
where
    F: Fn(&Case<'_>, &mut Ctx, &mut Acc) + Sync,
{
    let nh = dom.haystacks();
    let chunk: u64 = 32;
    let shards = ((nh + chunk - 1) / chunk) as usize;
    let needle_alphas: Vec<Vec<char>> = dom
        .cfgs
        .iter()
        .map(|&c| needle_alphabet(&dom.alpha, c))
        .collect();
    par_shards(shards, threads(), |shard, acc| {
        let mut ctx = Ctx {
            matcher: Matcher::default(),
            idx: Vec::new(),
            idx2: Vec::new(),
        };
        let mut hbuf = Vec::new();
        let mut nbuf = Vec::new();
        let mut hay = Text::new(&[]);
        let mut needle = Text::new(&[]);
        let lo = shard as u64 * chunk;
        let hi = (lo + chunk).min(nh);
        for hi_idx in lo..hi {
            decode(hi_idx, &dom.alpha, &mut hbuf);
            hay.set(&hbuf);
            for (ci, &cfg) in dom.cfgs.iter().enumerate() {
                let view = HayView::new(&hbuf, cfg);
                let na = &needle_alphas[ci];
                let nn = count_strings(na.len(), dom.max_n);
                ctx.matcher.config = cfg.to_config();
                for ni in 0..nn {
                    decode(ni, na, &mut nbuf);
                    needle.set(&nbuf);
                    let case = Case {
                        cfg,
                        hay: &hay,
                        view: &view,
                        needle: &needle,
                    };
                    acc.evaluations += 1;
                    let r = catch_unwind(AssertUnwindSafe(|| f(&case, &mut ctx, acc)));
                    if let Err(p) = r {
                        let msg = panic_msg(&p);
                        acc.violation(
                            &format!("{id}/panic"),
                            &format!("the matcher panicked: {msg}"),
                            || case.to_json(),
                        );
                        ctx.matcher = Matcher::new(cfg.to_config());
                    }
                }
            }
        }
    })
}

pub fn panic_msg(p: &Box<dyn std::any::Any + Send>) -> String {
    let s = if let Some(s) = p.downcast_ref::<&str>() {
        (*s).to_owned()
    } else if let Some(s) = p.downcast_ref::<String>() {
        s.clone()
    } else {
        "<non-string panic>".to_owned()
    };
    // strip positions that would make signatures unstable
    s.chars().take(160).collect()
}

pub fn quiet_panics() {
    if std::env::var("VERIF_LOUD").is_ok() {
        return;
    }
    std::panic::set_hook(Box::new(|_| {}));
}
