//! C18 — the cancellable parallel sort returns a sorted permutation.
//! (a) every small input (all key sequences over 4 keys up to length 9, all permutations up to 8);
//! (b) shape families at EVERY length 0..=2600 and selected larger lengths;
//! (c) every cancel moment (the comparator raises the flag at its k-th call, for every k);
//! (d) the worker's total order for 1, 2, 4 and 8 pool threads.

use std::panic::{catch_unwind, AssertUnwindSafe};
use std::sync::atomic::{AtomicBool, AtomicU64, Ordering};

use common::{json, par_shards, threads, Acc, Report, Value};
use nucleo::verif::{sort_routine_counters, verif_par_quicksort, SORT_ROUTINES};

type El = (u32, u32); // (key, tag)

fn tagged(keys: &[u32]) -> Vec<El> {
    keys.iter().enumerate().map(|(i, &k)| (k, i as u32)).collect()
}

fn is_perm(input: &[El], output: &[El]) -> bool {
    if input.len() != output.len() {
        return false;
    }
    let mut a = input.to_vec();
    let mut b = output.to_vec();
    a.sort_unstable();
    b.sort_unstable();
    a == b
}

fn is_sorted(v: &[El]) -> bool {
    v.windows(2).all(|w| w[0].0 <= w[1].0)
}

struct Outcome {
    /// the sort panicked (message); the other fields describe what it left behind
    panicked: Option<String>,
    returned_cancelled: bool,
    out: Vec<El>,
    comparisons: u64,
}

/// Sort `input` on `pool`; the comparator raises the flag at its `cancel_at`-th call (if any).
fn sort_once(pool: Option<&rayon::ThreadPool>, input: &[El], cancel_at: Option<u64>) -> Outcome {
    let mut v = input.to_vec();
    let flag = AtomicBool::new(false);
    let calls = AtomicU64::new(0);
    if cancel_at == Some(0) {
        flag.store(true, Ordering::Relaxed);
    }
    let less = |a: &El, b: &El| {
        let n = calls.fetch_add(1, Ordering::Relaxed) + 1;
        if Some(n) == cancel_at {
            flag.store(true, Ordering::Relaxed);
        }
        a.0 < b.0
    };
    // every call of the subject is caught: a panic is a verdict, not the end of the check
    let r = catch_unwind(AssertUnwindSafe(|| match pool {
        Some(p) => p.install(|| verif_par_quicksort(&mut v, less, &flag)),
        None => verif_par_quicksort(&mut v, less, &flag),
    }));
    let (returned_cancelled, panicked) = match r {
        Ok(c) => (c, None),
        Err(p) => (false, Some(crate::dom::panic_msg(&p))),
    };
    Outcome {
        panicked,
        returned_cancelled,
        out: v,
        comparisons: calls.load(Ordering::Relaxed),
    }
}

fn judge(acc: &mut Acc, family: &str, input: &[El], o: &Outcome, flag_raised: bool, describe: &dyn Fn() -> Value) {
    acc.transitions += 1;
    if let Some(msg) = &o.panicked {
        let msg = msg.clone();
        acc.violation(&format!("C18/{family}/panicked"), "the sort panicked", &|| {
            let mut d = describe();
            d["panic"] = json!(msg);
            d
        });
        return;
    }
    if !is_perm(input, &o.out) {
        acc.violation(&format!("C18/{family}/not_a_permutation"), "the slice is not a permutation of its input after sorting", describe);
        return;
    }
    if !o.returned_cancelled && !is_sorted(&o.out) {
        acc.violation(&format!("C18/{family}/not_sorted"), "sort reported 'not cancelled' but the slice is not in non-decreasing order", describe);
    }
    if !flag_raised && o.returned_cancelled {
        acc.violation(&format!("C18/{family}/spurious_cancel"), "sort reported 'cancelled' although the flag was never raised", describe);
    }
}

fn pool(n: usize) -> rayon::ThreadPool {
    rayon::ThreadPoolBuilder::new()
        .num_threads(n)
        .build()
        .unwrap_or_else(|_| common::machinery_failure("cannot build rayon pool"))
}

// --------------------------------------------------------------------------------------- shapes

pub const SHAPES: &[&str] = &[
    "sorted", "reversed", "all_equal", "two_alternating", "two_halves", "three_keys", "organ_pipe",
    "saw2", "saw3", "saw5", "saw7", "saw16", "swap_ends", "swap_mid", "one_low_at_end",
    "median3_killer", "runs127", "runs128", "runs129", "lcg_shuffle", "lcg_few_keys", "sorted_dups",
    "antiqsort", "low_pivot", "high_pivot", "shuffled_then_sorted", "sorted_then_shuffled",
];

/// McIlroy's "killer adversary for quicksort": the comparator decides the values lazily so that
/// every pivot turns out to be (almost) the smallest element. Running the real sort against the
/// adversary yields a concrete input on which the (deterministic) sort repeats exactly the same
/// comparisons, i.e. an input that drives it through its imbalance limit into heapsort.
fn antiqsort_input(n: usize) -> Vec<u32> {
    antiqsort_variant(n, 1, 0)
}

/// rule: 0 = McIlroy (freeze the candidate), 1 = always freeze the left argument, 2 = always the right;
/// perm: 0 = identity, 1 = reversed, 2 = fixed pseudo-shuffle of the initial arrangement
fn antiqsort_variant(n: usize, rule: u32, perm: u32) -> Vec<u32> {
    use std::sync::Mutex;
    struct Adv {
        val: Vec<u32>,
        nsolid: u32,
        candidate: usize,
    }
    let gas = n as u32;
    let adv = Mutex::new(Adv { val: vec![gas; n], nsolid: 0, candidate: 0 });
    let order: Vec<u32> = match perm {
        0 => (0..n as u32).collect(),
        1 => (0..n as u32).rev().collect(),
        _ => shape("lcg_shuffle", n),
    };
    let mut v: Vec<El> = order.iter().map(|&i| (i, i)).collect();
    let flag = AtomicBool::new(false);
    let less = |a: &El, b: &El| {
        let mut s = adv.lock().unwrap();
        let (x, y) = (a.0 as usize, b.0 as usize);
        if s.val[x] == gas && s.val[y] == gas {
            let f = match rule {
                0 => {
                    if x == s.candidate {
                        x
                    } else {
                        y
                    }
                }
                1 => x,
                _ => y,
            };
            s.val[f] = s.nsolid;
            s.nsolid += 1;
        }
        if s.val[x] == gas {
            s.candidate = x;
        } else if s.val[y] == gas {
            s.candidate = y;
        }
        s.val[x] < s.val[y]
    };
    // (a panic of the sort while the adversary input is generated leaves a partially decided
    // input, which is still a legal input; the panic itself shows when that input is sorted)
    let _ = catch_unwind(AssertUnwindSafe(|| pool(1).install(|| verif_par_quicksort(&mut v, less, &flag))));
    let s = adv.into_inner().unwrap_or_else(|e| e.into_inner());
    // the concrete input: position p of the initial arrangement held element order[p]
    order.iter().map(|&i| s.val[i as usize]).collect()
}

pub fn shape(name: &str, n: usize) -> Vec<u32> {
    let n32 = n as u32;
    match name {
        "sorted" => (0..n32).collect(),
        "reversed" => (0..n32).rev().collect(),
        "all_equal" => vec![7; n],
        "two_alternating" => (0..n32).map(|i| i % 2).collect(),
        "two_halves" => (0..n32).map(|i| if i < n32 / 2 { 1 } else { 0 }).collect(),
        "three_keys" => (0..n32).map(|i| (i * 7 + 1) % 3).collect(),
        "organ_pipe" => (0..n32).map(|i| if i < n32 / 2 { i } else { n32 - i }).collect(),
        "saw2" => (0..n32).map(|i| i % 2 * 1000 + i / 2).collect(),
        "saw3" => (0..n32).map(|i| i % 3).collect(),
        "saw5" => (0..n32).map(|i| i % 5).collect(),
        "saw7" => (0..n32).map(|i| (i % 7) * 10 + (i / 7) % 3).collect(),
        "saw16" => (0..n32).map(|i| i % 16).collect(),
        "swap_ends" => {
            let mut v: Vec<u32> = (0..n32).collect();
            if n >= 2 {
                v.swap(0, n - 1);
            }
            v
        }
        "swap_mid" => {
            let mut v: Vec<u32> = (0..n32).collect();
            if n >= 4 {
                v.swap(n / 3, 2 * n / 3);
                v.swap(n / 2, n / 2 + 1);
            }
            v
        }
        "one_low_at_end" => {
            let mut v: Vec<u32> = (1..=n32).collect();
            if n >= 1 {
                v[n - 1] = 0;
            }
            v
        }
        "median3_killer" => {
            // Musser's median-of-3 killer sequence for even n (odd: append the maximum)
            let m = n / 2 * 2;
            let k = m / 2;
            let mut v = vec![0u32; n];
            for i in 0..k {
                if i % 2 == 0 {
                    v[i] = i as u32 + 1;
                } else {
                    v[i] = (k + i + if k % 2 == 0 { 0 } else { 1 }) as u32;
                }
                v[k + i] = 2 * (i as u32 + 1);
            }
            if n > m {
                v[n - 1] = n32 + 1;
            }
            v
        }
        "runs127" | "runs128" | "runs129" => {
            let r: u32 = name[4..].parse().unwrap();
            // ascending overall, but runs of r elements are rotated to the wrong side of the middle
            (0..n32).map(|i| if (i / r) % 2 == 0 { n32 + i } else { i }).collect()
        }
        "lcg_shuffle" => {
            let mut v: Vec<u32> = (0..n32).collect();
            let mut x: u64 = 0x9E3779B97F4A7C15 ^ n as u64;
            for i in (1..n).rev() {
                x = x.wrapping_mul(6364136223846793005).wrapping_add(1442695040888963407);
                let j = (x >> 33) as usize % (i + 1);
                v.swap(i, j);
            }
            v
        }
        "lcg_few_keys" => {
            let mut x: u64 = 12345 + n as u64;
            (0..n)
                .map(|_| {
                    x = x.wrapping_mul(6364136223846793005).wrapping_add(1442695040888963407);
                    ((x >> 40) % 5) as u32
                })
                .collect()
        }
        "low_pivot" | "high_pivot" => {
            // a shuffled permutation whose nine pivot-candidate positions (len/4, len/2, 3len/4, each
            // +-1) hold nine adjacent values near one end: the first partition is very uneven, so one
            // half of the first parallel split is sorted without ever looking at the flag while the
            // other half still has splits that do
            let mut v = shape("lcg_shuffle", n);
            if n >= 64 {
                let first = if name == "low_pivot" { n32 / 10 } else { n32 - n32 / 10 - 9 };
                let mut val = first;
                for q in [n / 4, n / 4 * 2, n / 4 * 3] {
                    for pos in [q - 1, q, q + 1] {
                        let at = v.iter().position(|&x| x == val).unwrap();
                        v.swap(pos, at);
                        val += 1;
                    }
                }
            }
            v
        }
        "shuffled_then_sorted" | "sorted_then_shuffled" => {
            // one half (the slightly shorter one) scrambled, the other already in place: the first
            // partition needs no swap, the sort recurses into the scrambled half and then finds the
            // rest "probably sorted" - an exit of the loop without a further partition
            let mut v: Vec<u32> = (0..n32).collect();
            if n >= 8 {
                let h = if name == "shuffled_then_sorted" { n / 2 - 1 } else { n / 2 + 1 };
                let (lo, hi) = if name == "shuffled_then_sorted" { (0, h) } else { (h, n) };
                let perm = shape("lcg_shuffle", hi - lo);
                for (k, p) in perm.iter().enumerate() {
                    v[lo + k] = lo as u32 + p;
                }
            }
            v
        }
        "sorted_dups" => (0..n32).map(|i| i / 3).collect(),
        "antiqsort" => antiqsort_input(n),
        _ => unreachable!(),
    }
}

// ----------------------------------------------------------------------------------------- run

pub fn replay_case(c: &Value, acc: &mut Acc) {
    let keys: Vec<u32> = if let Some(a) = c["keys"].as_array() {
        a.iter().map(|x| x.as_u64().unwrap_or(0) as u32).collect()
    } else {
        shape(c["shape"].as_str().unwrap_or("sorted"), c["len"].as_u64().unwrap_or(0) as usize)
    };
    let input = tagged(&keys);
    let cancel_at = c["cancel_at"].as_u64();
    let p = pool(c["threads"].as_u64().unwrap_or(1) as usize);
    let o = sort_once(Some(&p), &input, cancel_at);
    let d = c.clone();
    judge(acc, c["family"].as_str().unwrap_or("replay"), &input, &o, cancel_at.is_some(), &|| d.clone());
}

pub fn run(tier: &str) -> ! {
    let mut rep = Report::new("C18", tier);
    crate::dom::quiet_panics();
    let thorough = rep.is_thorough();
    let before = sort_routine_counters();

    // (a) all small inputs
    let n_keyseq = crate::dom::count_strings(4, 9);
    let chunk = 512u64;
    let acc = par_shards(((n_keyseq + chunk - 1) / chunk) as usize, threads(), |shard, acc| {
        let alpha = ['0', '1', '2', '3'];
        let mut buf = Vec::new();
        for i in shard as u64 * chunk..((shard as u64 + 1) * chunk).min(n_keyseq) {
            crate::dom::decode(i, &alpha, &mut buf);
            let keys: Vec<u32> = buf.iter().map(|&c| c as u32 - '0' as u32).collect();
            let input = tagged(&keys);
            acc.evaluations += 1;
            acc.states += 1;
            let o = sort_once(None, &input, None);
            judge(acc, "small", &input, &o, false, &|| json!({"family": "small", "keys": keys, "threads": 1}));
            if keys.len() >= 3 && keys.windows(2).any(|w| w[0] > w[1]) {
                acc.nontrivial += 1;
            }
        }
    });
    rep.acc.merge(acc);
    // all permutations of length <= 8 (Heap's algorithm, sequential; 46k inputs)
    {
        let mut acc = Acc::new();
        for n in 0..=8usize {
            let mut a: Vec<u32> = (0..n as u32).collect();
            let mut c = vec![0usize; n];
            let mut visit = |a: &[u32], acc: &mut Acc| {
                let input = tagged(a);
                acc.evaluations += 1;
                acc.states += 1;
                acc.nontrivial += 1;
                let o = sort_once(None, &input, None);
                let keys = a.to_vec();
                judge(acc, "small", &input, &o, false, &|| json!({"family": "small", "keys": keys, "threads": 1}));
            };
            visit(&a, &mut acc);
            let mut i = 0;
            while i < n {
                if c[i] < i {
                    if i % 2 == 0 {
                        a.swap(0, i);
                    } else {
                        a.swap(c[i], i);
                    }
                    visit(&a, &mut acc);
                    c[i] += 1;
                    i = 0;
                } else {
                    c[i] = 0;
                    i += 1;
                }
            }
        }
        rep.acc.merge(acc);
    }
    eprintln!("[C18] small inputs done {:.1}s", rep.start.elapsed().as_secs_f64());

    // (b) shape families, every length
    let mut lengths: Vec<usize> = (0..=2600).collect();
    lengths.extend(4000..=4100);
    lengths.extend([8192, 20_000]);
    if thorough {
        lengths.extend([50_000, 200_000]);
    }
    let acc = par_shards(lengths.len(), threads(), |li, acc| {
        let n = lengths[li];
        let p1 = pool(1);
        for sh in SHAPES {
            if *sh == "antiqsort" && n > 8192 {
                continue;
            }
            let keys = shape(sh, n);
            let input = tagged(&keys);
            acc.evaluations += 1;
            acc.states += 1;
            acc.nontrivial += 1;
            let r = catch_unwind(AssertUnwindSafe(|| sort_once(Some(&p1), &input, None)));
            match r {
                Ok(o) => {
                    judge(acc, "shape", &input, &o, false, &|| json!({"family": "shape", "shape": sh, "len": n, "threads": 1}));
                    if n == 2600 {
                        acc.sample(|| json!({"shape": sh, "len": n, "comparisons": o.comparisons}));
                    }
                }
                Err(_) => acc.violation("C18/shape/panic", "the sort panicked", || json!({"family": "shape", "shape": sh, "len": n, "threads": 1})),
            }
            acc.outcome(sh);
        }
    });
    rep.acc.merge(acc);
    eprintln!("[C18] shapes done {:.1}s", rep.start.elapsed().as_secs_f64());

    // (c) every cancel moment on a one-thread pool
    let cancel_lengths: Vec<usize> = if thorough { vec![2001, 2600, 4100, 5000, 8192, 12000] } else { vec![2001, 2600, 4100, 5200] };
    // quick tier: the uneven-first-partition shapes only at the length where they differ from a
    // plain shuffle (a half above the sequential threshold that splits again), the others below it
    let wanted = |sh: &str, n: usize| thorough || if sh.contains("_then_") { n == 2001 } else { (sh.ends_with("_pivot")) == (n == 5200) };
    let cancel_shapes = ["lcg_shuffle", "organ_pipe", "lcg_few_keys", "reversed", "low_pivot", "high_pivot", "shuffled_then_sorted", "sorted_then_shuffled"];
    let mut cancel_jobs: Vec<(usize, &str, u64, u64)> = Vec::new(); // (len, shape, k_lo, k_hi)
    let mut cancel_total = 0u64;
    for &n in &cancel_lengths {
        for sh in cancel_shapes {
            if !wanted(sh, n) {
                continue;
            }
            let input = tagged(&shape(sh, n));
            let total = sort_once(Some(&pool(1)), &input, None).comparisons;
            cancel_total += total + 2;
            let step = 2048u64;
            let mut lo = 0;
            while lo <= total + 1 {
                cancel_jobs.push((n, sh, lo, (lo + step).min(total + 2)));
                lo += step;
            }
        }
    }
    let acc = par_shards(cancel_jobs.len(), threads(), |ji, acc| {
        let (n, sh, lo, hi) = cancel_jobs[ji];
        let p1 = pool(1);
        let input = tagged(&shape(sh, n));
        for k in lo..hi {
            acc.evaluations += 1;
            acc.states += 1;
            let o = sort_once(Some(&p1), &input, Some(k));
            // the flag was raised iff the comparator was called at least k times (or k == 0)
            let raised = k == 0 || o.comparisons >= k;
            judge(acc, "cancel", &input, &o, raised, &|| json!({"family": "cancel", "shape": sh, "len": n, "cancel_at": k, "threads": 1}));
            acc.outcome(if o.returned_cancelled { "cancelled" } else { "completed" });
            if o.returned_cancelled {
                acc.nontrivial += 1;
                if k % 5003 == 0 {
                    acc.sample(|| json!({"shape": sh, "len": n, "cancel_at_comparison": k, "returned": "cancelled", "still_a_permutation": true}));
                }
            }
        }
    });
    rep.acc.merge(acc);
    eprintln!("[C18] cancel moments done {:.1}s", rep.start.elapsed().as_secs_f64());

    // (b') long adversarial arrangements, each in a child process (a stack overflow must not
    // take the enumerator down)
    {
        let mut acc = Acc::new();
        let lens: Vec<usize> = if thorough { vec![8192, 20_000, 50_000, 100_000] } else { vec![8192, 20_000, 50_000] };
        adversary_children(&lens, &mut acc);
        rep.acc.merge(acc);
        eprintln!("[C18] adversarial children done {:.1}s", rep.start.elapsed().as_secs_f64());
    }

    // (d) thread counts: worker-style total order (score desc, len asc, idx asc); result must be
    // the unique sorted order for every thread count
    let mut acc = Acc::new();
    let pools: Vec<(usize, rayon::ThreadPool)> = [1usize, 2, 4, 8].iter().map(|&t| (t, pool(t))).collect();
    for &n in &[2001usize, 2600, 4100, 8192, 20_000] {
        for sh in ["lcg_few_keys", "lcg_shuffle", "organ_pipe", "saw16"] {
            let keys = shape(sh, n);
            // element = (score, (len, idx)) encoded so that the total order is (score desc, len asc, idx asc)
            let items: Vec<(u32, u32, u32)> = keys.iter().enumerate().map(|(i, &k)| (k % 7, (i as u32 * 31) % 5, i as u32)).collect();
            let mut want = items.clone();
            want.sort_by(|a, b| b.0.cmp(&a.0).then(a.1.cmp(&b.1)).then(a.2.cmp(&b.2)));
            for (t, p) in &pools {
                let mut v = items.clone();
                let flag = AtomicBool::new(false);
                let cancelled = catch_unwind(AssertUnwindSafe(|| {
                    p.install(|| {
                        verif_par_quicksort(
                            &mut v,
                            |a, b| {
                                if a.0 != b.0 {
                                    return a.0 > b.0;
                                }
                                if a.1 != b.1 {
                                    return a.1 < b.1;
                                }
                                a.2 < b.2
                            },
                            &flag,
                        )
                    })
                }))
                .unwrap_or(true); // a panic is reported like a spurious cancellation below
                acc.evaluations += 1;
                acc.transitions += 1;
                acc.count(&format!("multi_thread_runs(threads={t})"), 1);
                if cancelled || v != want {
                    acc.violation("C18/threads/order_differs", "the sorted order under a total order differs from the reference for some thread count", || {
                        json!({"family": "threads", "shape": sh, "len": n, "threads": t, "returned_cancelled": cancelled})
                    });
                }
            }
        }
    }
    rep.acc.merge(acc);

    let after = sort_routine_counters();
    let mut routines = serde_json::Map::new();
    for (i, name) in SORT_ROUTINES.iter().enumerate() {
        routines.insert((*name).to_owned(), json!(after[i] - before[i]));
        if after[i] == before[i] {
            rep.caps.push(format!("routine {name} of par_sort was never entered"));
        }
    }
    rep.extra("par_sort_routine_entries", Value::Object(routines));
    rep.extra("cancel_moments_enumerated", json!(cancel_total));
    rep.extra("shape_lengths", json!(lengths.len()));
    rep.extra("shapes", json!(SHAPES));
    rep.acc.traces = rep.acc.transitions;
    rep.exhaustive = false;
    rep.bound = format!(
        "all key sequences over 4 keys of length <= 9 and all permutations of length <= 8; {} shapes at every length 0..=2600, 4000..=4100 and {} larger lengths; every comparator-call index as cancel moment for {} shapes x lengths {:?} (quick tier: the two uneven-pivot shapes at 5200 only, the two half-sorted shapes at 2001 only, the other shapes at the smaller lengths) on a one-thread pool; thread counts 1/2/4/8 on 20 inputs",
        SHAPES.len(), if thorough { 4 } else { 2 }, cancel_shapes.len(), cancel_lengths
    );
    rep.rule = "small inputs: complete; shapes: every length x fixed deterministic shape family; cancel: every k in 0..=comparisons+1; non-trivial = unsorted input / shape case / cancellation observed".into();
    rep.assumptions = vec![
        "large lengths are covered by a deterministic shape family, exhaustive in length x shape, not over all inputs of those lengths (so exhaustive=false overall)".into(),
        "with a one-thread pool rayon::join runs both closures on the calling thread in a fixed order, so cancel moments replay exactly".into(),
        "runs with 2/4/8 pool threads are repeated runs under rayon's own scheduling, labelled as such; they add to the oracle (identical order for every thread count) but not to exhaustiveness".into(),
    ];
    rep.finish()
}

/// Child-process mode: generate the adversarial arrangement of length `n`, sort it again with a
/// consistent comparator on a default-configured one-thread pool (default stack size, like the
/// library's own pool) and report. A stack overflow aborts only this child.
pub fn adversary_child(n: usize) -> ! {
    let keys = antiqsort_variant(n, 1, 0);
    let input = tagged(&keys);
    let m = sort_routine_counters();
    let o = sort_once(Some(&pool(1)), &input, None);
    let a = sort_routine_counters();
    println!(
        "{}",
        json!({"len": n, "permutation": is_perm(&input, &o.out), "sorted": is_sorted(&o.out), "returned_cancelled": o.returned_cancelled,
               "comparisons": o.comparisons, "heapsort": a[2] - m[2], "break_patterns": a[5] - m[5], "parallel_join": a[6] - m[6]})
    );
    std::process::exit(0)
}

fn adversary_children(lengths: &[usize], acc: &mut Acc) {
    let exe = std::env::current_exe().unwrap_or_else(|_| common::machinery_failure("current_exe"));
    for &n in lengths {
        acc.evaluations += 1;
        acc.states += 1;
        acc.nontrivial += 1;
        acc.transitions += 1;
        let out = std::process::Command::new(&exe)
            .args(["c18-adversary", &n.to_string()])
            .output()
            .unwrap_or_else(|_| common::machinery_failure("cannot spawn adversary child"));
        let stdout = String::from_utf8_lossy(&out.stdout).to_string();
        let stderr = String::from_utf8_lossy(&out.stderr).to_string();
        if !out.status.success() {
            let why = if stderr.contains("overflowed its stack") { "stack_overflow" } else { "abnormal_exit" };
            acc.violation(
                &format!("C18/adversarial/{why}"),
                "sorting an adversarial (pivot-defeating) arrangement did not return: the process died",
                || json!({"family": "adversarial", "len": n, "exit": format!("{:?}", out.status), "stderr_tail": stderr.chars().rev().take(200).collect::<String>().chars().rev().collect::<String>(),
                          "reproduce": format!("e1 c18-adversary {n}")}),
            );
            continue;
        }
        let v: Value = serde_json::from_str(stdout.trim()).unwrap_or(Value::Null);
        if v["permutation"] != json!(true) || v["sorted"] != json!(true) || v["returned_cancelled"] != json!(false) {
            acc.violation("C18/adversarial/wrong_result", "adversarial arrangement is not sorted correctly", || json!({"family": "adversarial", "len": n, "child": v}));
        }
        acc.sample(|| json!({"adversarial_arrangement": v}));
        acc.outcome("adversarial");
    }
}
