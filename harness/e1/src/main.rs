//! E1 — bounded-exhaustive enumeration against reference models (sequential code).
//! usage: e1 <property> <quick|thorough>      |      e1 replay <property> <file>

mod algos;
mod big;
mod c10;
mod c11;
mod talloc;

#[global_allocator]
static GLOBAL: talloc::TrackingAlloc = talloc::TrackingAlloc;
mod c14;
mod c15;
mod c16;
mod c17;
mod c18;
mod e2;
mod e2props;
mod e2run;
mod sched;
mod dom;
mod mprops;
mod refm;

use common::{json, machinery_failure, Report};
use dom::{Domain, ASCII5, ASCII7, NONASCII9};
use refm::Cfg;

fn cat(a: &[char], b: &[char]) -> Vec<char> {
    let mut v = a.to_vec();
    v.extend_from_slice(b);
    v
}

const ASCII_EDGES: &[char] = &['a', 'z', 'A', 'Z', '@', '[', '`', '{', '0', '9'];

fn matcher_domains(id: &str, thorough: bool) -> Vec<Domain> {
    let cfgs = match id {
        "C03" | "C04" => Cfg::all_no_prefix(),
        _ => Cfg::all(),
    };
    let mixed8: Vec<char> = vec!['a', 'A', 'ä', 'Ä', 'ς', 'σ', ' ', '/'];
    let mixed6: Vec<char> = vec!['a', 'A', 'ä', 'ς', 'σ', ' '];
    let full16 = cat(ASCII7, NONASCII9);
    let fold_ascii: Vec<char> = vec!['s', 'k', 'ſ', '\u{212A}', 'S', '-'];
    // one non-ASCII representative per behavioural signature (computed from the library's own
    // tables over all scalar values) next to a few ASCII companions the normal forms map onto
    let mut sig = dom::signature_alphabet();
    // drop characters whose composite normal form is not a fixed point (not a legal needle)
    sig.retain(|&c| {
        Cfg::all().iter().all(|&cf| {
            let t = refm::norm(c, cf);
            refm::norm(t, cf) == t
        })
    });
    let sig_alpha = cat(&['a', 'i', 'A', ' '], &sig);
    match (id, thorough) {
        ("C04", false) => vec![
            Domain::new("ascii5", ASCII5, 6, 3, cfgs.clone()),
            Domain::new("ascii7", ASCII7, 5, 2, cfgs.clone()),
            Domain::new("mixed6", &mixed6, 5, 3, cfgs.clone()),
            // deep and narrow: two letters, a camel hump and a delimiter; ties between continuing a
            // run and starting one after a gap need four needle characters and seven columns
            Domain::new("camel4", &['a', 'b', 'A', '_'], 7, 4, cfgs.clone()),
            Domain::new("ascii-edges", ASCII_EDGES, 4, 2, cfgs),
        ],
        ("C04", true) => vec![
            Domain::new("ascii5", ASCII5, 8, 3, cfgs.clone()),
            Domain::new("ascii7", ASCII7, 6, 4, cfgs.clone()),
            Domain::new("mixed8", &mixed8, 5, 4, cfgs.clone()),
            Domain::new("full16", &full16, 4, 2, cfgs.clone()),
            Domain::new("camel4", &['a', 'b', 'A', '_'], 9, 4, cfgs.clone()),
            Domain::new("camel5-digit", &['a', 'b', 'A', '_', '1'], 7, 4, cfgs.clone()),
            Domain::new("ascii-edges", ASCII_EDGES, 5, 3, cfgs),
        ],
        (_, false) => vec![
            Domain::new("ascii7", ASCII7, 5, 3, cfgs.clone()),
            Domain::new("mixed8", &mixed8, 4, 3, cfgs.clone()),
            Domain::new("fold-to-ascii", &fold_ascii, 4, 2, cfgs.clone()),
            Domain::new("full16", &full16, 3, 2, cfgs.clone()),
            Domain::new("signature-classes", &sig_alpha, 3, 2, cfgs.clone()),
            // first / last letter and digit of each ASCII range and the characters next to them
            Domain::new("ascii-edges", ASCII_EDGES, 4, 2, cfgs),
        ],
        (_, true) => vec![
            Domain::new("ascii7-h6", ASCII7, 6, 3, cfgs.clone()),
            Domain::new("ascii7-n4", ASCII7, 5, 4, cfgs.clone()),
            Domain::new("ascii5-long", ASCII5, 8, 3, cfgs.clone()),
            Domain::new("mixed8-h5", &mixed8, 5, 3, cfgs.clone()),
            Domain::new("mixed8-n4", &mixed8, 4, 4, cfgs.clone()),
            Domain::new("fold-to-ascii", &fold_ascii, 6, 3, cfgs.clone()),
            Domain::new("full16", &full16, 4, 2, cfgs.clone()),
            Domain::new("signature-classes", &sig_alpha, 3, 2, cfgs.clone()),
            Domain::new("signature-classes-n3", &sig_alpha, 2, 3, cfgs.clone()),
            Domain::new("ascii-edges", ASCII_EDGES, 5, 3, cfgs),
        ],
    }
}

fn run_matcher_prop(id: &str, tier: &str) -> ! {
    let mut rep = Report::new(id, tier);
    dom::quiet_panics();
    let doms = matcher_domains(id, rep.is_thorough());
    let mut total = 0u64;
    let mut descr = Vec::new();
    for d in &doms {
        total += d.size();
        descr.push(d.describe());
        let acc = match id {
            "C01" => dom::for_each_case(id, d, mprops::c01_case),
            "C02" => dom::for_each_case(id, d, mprops::c02_case),
            "C03" => dom::for_each_case(id, d, mprops::c03_case),
            "C04" => dom::for_each_case(id, d, mprops::c04_case),
            "C05" => dom::for_each_case(id, d, mprops::c05_case),
            _ => unreachable!(),
        };
        eprintln!(
            "[{id}] domain {} done: {} cases, {:.1}s",
            d.name,
            acc.evaluations,
            rep.start.elapsed().as_secs_f64()
        );
        rep.acc.merge(acc);
    }
    if matches!(id, "C01" | "C02" | "C03") {
        // shapes on both sides of every matrix guard and needles of up to 6000 characters
        let thorough_big = rep.is_thorough();
        let cases = big::big_cases(thorough_big);
        total += cases.len() as u64;
        let acc = common::par_shards(cases.len(), common::threads(), |i, acc| {
            let bc = &cases[i];
            if id == "C03" && bc.cfg.prefer_prefix {
                return;
            }
            let hay = algos::Text::new(&bc.hay);
            let needle = algos::Text::new(&bc.needle);
            let view = refm::HayView::new(&bc.hay, bc.cfg);
            let mut ctx = dom::Ctx {
                matcher: nucleo_matcher::Matcher::new(bc.cfg.to_config()),
                idx: Vec::new(),
                idx2: Vec::new(),
            };
            let case = dom::Case { cfg: bc.cfg, hay: &hay, view: &view, needle: &needle };
            acc.evaluations += 1;
            acc.count(&format!("large:{}", bc.family), 1);
            let mut local = common::Acc::new();
            let r = std::panic::catch_unwind(std::panic::AssertUnwindSafe(|| match id {
                "C01" => mprops::c01_case(&case, &mut ctx, &mut local),
                "C02" => mprops::c02_case(&case, &mut ctx, &mut local),
                _ => mprops::c03_case(&case, &mut ctx, &mut local),
            }));
            // large cases: replace the full text in violation examples by a compact description
            for (_, v) in local.violations.iter_mut() {
                for e in v.examples.iter_mut() {
                    *e = json!({"large_family": bc.family, "large_index": i, "large_thorough": thorough_big, "cfg": bc.cfg.tag(), "haystack_len": bc.hay.len(), "needle_len": bc.needle.len(),
                                "haystack_head": common::show(&bc.hay[..bc.hay.len().min(8)]), "needle_head": common::show(&bc.needle[..bc.needle.len().min(8)]),
                                "detail": {"entry": e.get("entry"), "algo": e.get("algo"), "rep": e.get("rep"), "returned": e.get("returned"), "scheme": e.get("scheme"), "match": e.get("match"), "indices_result": e.get("indices")}});
                }
            }
            local.samples.clear();
            acc.merge(local);
            if r.is_err() {
                acc.violation(&format!("{id}/panic-large"), "the matcher panicked on a large input", || {
                    json!({"large_family": bc.family, "large_index": i, "large_thorough": thorough_big, "cfg": bc.cfg.tag(), "haystack_len": bc.hay.len(), "needle_len": bc.needle.len()})
                });
            }
        });
        eprintln!("[{id}] large families done: {} cases, {:.1}s", cases.len(), rep.start.elapsed().as_secs_f64());
        rep.acc.merge(acc);
        descr.push(json!({"name": "large-shape families", "cases": cases.len(), "shapes": "both sides of h*n=102400, n=2048, h=65535; needle lengths up to 6000 (run shapes equal/prefix-run/suffix-run/gapped)"}));
    }
    rep.extra("domains", json!(descr));
    rep.extra("domain_size_computed", json!(total));
    rep.exhaustive = rep.acc.evaluations == total || (id == "C03" && rep.acc.evaluations <= total);
    if !rep.exhaustive {
        rep.caps.push(format!(
            "evaluated {} of {} cases",
            rep.acc.evaluations, total
        ));
    }
    rep.acc.traces = rep.acc.transitions;
    rep.bound = doms
        .iter()
        .map(|d| format!("{}: |A|={} h<={} n<={}", d.name, d.alpha.len(), d.max_h, d.max_n))
        .collect::<Vec<_>>()
        .join("; ");
    rep.rule = match id {
        "C01" => "every (configuration, haystack, normalised needle) of the listed domains, each presented in every representation pair to the four fuzzy entry points; non-trivial = match with at least one skipped haystack character, or rejection although every needle character occurs in the haystack (order/multiplicity decides)".into(),
        "C02" => "every case x six indices entry points x representation pairs x three prior vector contents; non-trivial = at least one entry point succeeded on a non-empty needle".into(),
        "C03" => "every case with prefer_prefix off x six algorithms x representation pairs, score-only vs indices variant vs independent scorer on the reported alignment; non-trivial = at least one algorithm matched a non-empty needle".into(),
        "C04" => "every case with prefer_prefix off and on, fuzzy_match/fuzzy_indices against brute-force maximum over all alignments and the naive full-matrix recurrence; non-trivial = the needle matches".into(),
        "C05" => "every case x substring/prefix/postfix/exact x representation pairs against reference relations; non-trivial = an anchored kind matches or the substring occurs more than once".into(),
        _ => String::new(),
    };
    rep.assumptions = vec![
        "needles are drawn from the image of the haystack alphabet under the configured normal form (the matcher's documented precondition)".into(),
        "chars::normalize and chars::to_lower_case define the normal form (their own correctness is C16)".into(),
        "U+000B is excluded from every alphabet (u8::is_ascii_whitespace and char::is_whitespace disagree on it)".into(),
        "small-scope hypothesis beyond the stated length bounds".into(),
    ];
    rep.finish()
}

fn replay_matcher_case(id: &str, c: &common::Value, acc: &mut common::Acc) {
    use algos::Text;
    let cfg = Cfg::from_tag(c["cfg"].as_str().unwrap_or("INpx"));
    let (hay_chars, needle_chars) = if let Some(fam) = c["large_family"].as_str() {
        // large inputs are stored by their position in the generated family list
        let cases = big::big_cases(c["large_thorough"].as_bool().unwrap_or(false));
        let i = c["large_index"].as_u64().unwrap_or(u64::MAX) as usize;
        match cases.get(i) {
            Some(bc) if bc.family == fam && bc.hay.len() as u64 == c["haystack_len"].as_u64().unwrap_or(0) && bc.needle.len() as u64 == c["needle_len"].as_u64().unwrap_or(0) && bc.cfg.tag() == cfg.tag() => (bc.hay.clone(), bc.needle.clone()),
            _ => machinery_failure("the large-input family list no longer contains this case at the recorded position"),
        }
    } else {
        (common::parse_cps(&c["haystack"]), common::parse_cps(&c["needle"]))
    };
    let hay = Text::new(&hay_chars);
    let needle = Text::new(&needle_chars);
    let view = refm::HayView::new(&hay.chars, cfg);
    let mut ctx = dom::Ctx {
        matcher: nucleo_matcher::Matcher::new(cfg.to_config()),
        idx: Vec::new(),
        idx2: Vec::new(),
    };
    let case = dom::Case {
        cfg,
        hay: &hay,
        view: &view,
        needle: &needle,
    };
    match id {
        "C01" => mprops::c01_case(&case, &mut ctx, acc),
        "C02" => mprops::c02_case(&case, &mut ctx, acc),
        "C03" => mprops::c03_case(&case, &mut ctx, acc),
        "C04" => mprops::c04_case(&case, &mut ctx, acc),
        "C05" => mprops::c05_case(&case, &mut ctx, acc),
        _ => unreachable!(),
    }
}

/// Replays every case of a replay file twice (observations must be identical) and prints
/// which violations the current tree still shows.
fn replay_generic(id: &str, file: &str, f: &dyn Fn(&common::Value, &mut common::Acc)) -> ! {
    let text = std::fs::read_to_string(file)
        .unwrap_or_else(|e| machinery_failure(&format!("cannot read {file}: {e}")));
    let v: common::Value = serde_json::from_str(&text)
        .unwrap_or_else(|e| machinery_failure(&format!("cannot parse {file}: {e}")));
    let cases = v["cases"].as_array().cloned().unwrap_or_default();
    let mut failed = 0;
    let known: Vec<String> = common::load_known_findings()
        .into_iter()
        .filter(|k| k.status == "open" && k.property == id)
        .map(|k| k.signature)
        .collect();
    for c in &cases {
        let mut observations = Vec::new();
        for _ in 0..2 {
            let mut acc = common::Acc::new();
            let r = std::panic::catch_unwind(std::panic::AssertUnwindSafe(|| f(c, &mut acc)));
            let mut obs: Vec<String> = acc
                .violations
                .iter()
                .map(|(k, v)| format!("{k}: {} {}", v.what, serde_json::to_string(&v.examples[0]).unwrap()))
                .collect();
            if let Err(p) = r {
                obs.push(format!("{id}/panic: {}", dom::panic_msg(&p)));
            }
            observations.push(obs);
        }
        if observations[0] != observations[1] {
            machinery_failure("replay is not deterministic");
        }
        println!("case {}", serde_json::to_string(c).unwrap().chars().take(300).collect::<String>());
        let mut bad = false;
        for o in &observations[0] {
            if known.iter().any(|k| o.starts_with(&format!("{k}:"))) {
                println!("  KNOWN-FINDING {o}");
            } else {
                bad = true;
                println!("  VIOLATES {o}");
            }
        }
        if bad {
            failed += 1;
        } else {
            println!("  holds on the current tree (apart from listed known findings)");
        }
    }
    println!("replayed {} cases, {} violate {}", cases.len(), failed, id);
    std::process::exit(if failed > 0 { 1 } else { 0 })
}

fn main() {
    let args: Vec<String> = std::env::args().collect();
    if args.len() < 3 {
        machinery_failure("usage: e1 <property> <quick|thorough> | e1 replay <property> <file>");
    }
    if args[1] == "c09-e2" {
        e2run::c09_e2_child(&args[2]);
    }
    if args[1] == "c08-seq" {
        c11::c08_seq_child(&args[2]);
    }
    if args[1] == "c08-overflow" {
        c11::c08_overflow_child(&args[2]);
    }
    if args[1] == "e2-child" {
        e2run::child(&args[2], &args[3], args[4].parse().unwrap_or(0), args[5].parse().unwrap_or(1));
    }
    if args[1] == "c18-adversary" {
        c18::adversary_child(args[2].parse().unwrap_or(0));
    }
    if args[1] == "replay" {
        if args.len() < 4 {
            machinery_failure("usage: e1 replay <property> <file>");
        }
        dom::quiet_panics();
        match args[2].as_str() {
            "C01" | "C02" | "C03" | "C04" | "C05" => {
                let id = args[2].clone();
                replay_generic(&args[2], &args[3], &move |c, acc| replay_matcher_case(&id, c, acc))
            }
            "C11" if args[3].contains("_e2_") => e2run::replay("C11", &args[3]),
            "C11" => replay_generic("C11", &args[3], &c11::replay_case),
            "C08" => replay_generic("C08", &args[3], &c11::replay_case_c08),
            "C14" => replay_generic("C14", &args[3], &c14::replay_case),
            "C15" => replay_generic("C15", &args[3], &c15::replay_case),
            "C16" => replay_generic("C16", &args[3], &c16::replay_case),
            "C10" => replay_generic("C10", &args[3], &c10::replay_case),
            "C17" => replay_generic("C17", &args[3], &c17::replay_case),
            "C06" | "C07" | "C12" | "C13" | "C19" | "C20" => e2run::replay(&args[2], &args[3]),
            "C18" => replay_generic("C18", &args[3], &c18::replay_case),
            other => machinery_failure(&format!("no replay for {other}")),
        }
    }
    match args[1].as_str() {
        "C01" | "C02" | "C03" | "C04" | "C05" => run_matcher_prop(&args[1], &args[2]),
        "C10" => c10::run(&args[2]),
        "C11" => {
            let mut rep = Report::new("C11", &args[2]);
            dom::quiet_panics();
            c11::run_seq(&mut rep);
            rep.acc.traces = rep.acc.transitions;
            let seq_hist = rep.acc.evaluations;
            // handle / restart / drop histories and an outliving injector thread on the real
            // Nucleo under the controlled scheduler
            e2run::collect("C11", &args[2], &mut rep);
            // concurrent writers on the vector itself: the loom bodies with drop accounting
            // (sibling binary; run.sh builds it and passes its path)
            let mut loom_execs = 0u64;
            if let Ok(e3) = std::env::var("VERIF_E3_BIN") {
                match std::process::Command::new(&e3).args(["c11-loom", &args[2]]).output() {
                    Ok(out) if out.status.success() => {
                        let stdout = String::from_utf8_lossy(&out.stdout).to_string();
                        let v: common::Value = serde_json::from_str(stdout.lines().last().unwrap_or("")).unwrap_or(common::Value::Null);
                        loom_execs = v["executions"].as_u64().unwrap_or(0);
                        if loom_execs == 0 && v["violations"].as_array().map_or(true, |a| a.is_empty()) {
                            machinery_failure("the loom drop-accounting child reported no executions");
                        }
                        rep.acc.evaluations += loom_execs;
                        rep.acc.states += loom_execs;
                        rep.acc.transitions += loom_execs;
                        rep.acc.traces += loom_execs;
                        for vl in v["violations"].as_array().cloned().unwrap_or_default() {
                            let sig = vl["sig"].as_str().unwrap_or("C11/loom/?").to_owned();
                            let what = vl["what"].as_str().unwrap_or("").to_owned();
                            let ex = vl["example"].clone();
                            rep.acc.violation(&sig, &what, || ex);
                        }
                        for n in v["notes"].as_array().cloned().unwrap_or_default() {
                            rep.caps.push(n.as_str().unwrap_or("").to_owned());
                        }
                        if v["all_unbounded"].as_bool() != Some(true) {
                            rep.caps.push("some loom bodies are explored up to a preemption bound (see the C08 evidence for the bound of each body)".into());
                        }
                    }
                    Ok(out) => machinery_failure(&format!("loom drop-accounting child failed: {:?}", out.status)),
                    Err(e) => machinery_failure(&format!("cannot run {e3}: {e}")),
                }
            } else {
                machinery_failure("VERIF_E3_BIN not set (run through run.sh)");
            }
            rep.extra("loom_executions_with_drop_accounting", json!(loom_execs));
            let e2_bound = rep.bound.clone();
            rep.bound = format!("sequential: every history up to the depth bound over 12 operations from 18 start states, each with a drop-logging and a plain item type ({seq_hist} histories); concurrent vector: every loom body of C08 with drop accounting; front end: {e2_bound}");
            rep.rule = "complete enumeration of operation histories (vector level: push/extend with lying iterators and panicking callbacks; front end: injector/clone/drop/restart/push/tick/drop-matcher, tick branching on timeout vs completion, plus an injector thread that outlives restarts and the matcher); non-trivial = a lying iterator or panicking callback is involved / the schedule deviates from the default".into();
            rep.finish()
        }
        "C14" => c14::run(&args[2]),
        "C15" => c15::run(&args[2]),
        "C17" => c17::run(&args[2]),
        "C06" | "C07" | "C12" | "C13" | "C19" | "C20" => e2run::parent(&args[1], &args[2]),
        "C18" => c18::run(&args[2]),
        "C16" => {
            let p = std::env::var("VERIF_UNICODE_REF")
                .unwrap_or_else(|_| machinery_failure("VERIF_UNICODE_REF not set (run through run.sh)"));
            c16::run(&args[2], &p)
        }
        other => machinery_failure(&format!("unknown property {other}")),
    }
}
