//! Scenario runner for the controlled scheduler: scripts for the owning thread `U` and for
//! injector threads, executed on a fresh real `Nucleo` per execution, with an event log and
//! snapshot copies that the per-property monitors judge.

use std::sync::{Arc, Mutex};

use common::{json, Value};
use nucleo::pattern::{CaseMatching, Normalization};
use nucleo::{Config, Injector, Matcher, Nucleo, Utf32String};

use crate::sched::{Exec, Outcome, Trace, Wait, T_U};

#[derive(Clone, Copy, Debug, PartialEq, Eq, PartialOrd, Ord, Hash)]
pub struct ItemData {
    pub gen: u32,
    pub id: u32,
}

/// The item type injected into the matcher: its destruction is logged (C11).
pub struct Tracked {
    pub key: ItemData,
}
impl Drop for Tracked {
    fn drop(&mut self) {
        DROPS.lock().unwrap_or_else(|e| e.into_inner()).push(self.key);
    }
}
/// destruction log of the execution in progress (one execution at a time per process)
pub static DROPS: Mutex<Vec<ItemData>> = Mutex::new(Vec::new());
/// live injector handles per stream generation, maintained by the harness threads
pub static HANDLES: Mutex<Vec<i64>> = Mutex::new(Vec::new());

fn handle_delta(gen: u32, d: i64) {
    let mut h = HANDLES.lock().unwrap_or_else(|e| e.into_inner());
    if h.len() <= gen as usize {
        h.resize(gen as usize + 1, 0);
    }
    h[gen as usize] += d;
}

#[derive(Clone, Debug)]
pub struct ItemSpec {
    pub id: u32,
    pub text: &'static str,
}

#[derive(Clone, Debug)]
pub enum UOp {
    Reparse(usize, &'static str),
    /// tick(0); the interleaving decides whether the try-lock succeeds
    Tick,
    Restart(bool),
    /// create an injector for the current stream and put it into hand-over slot `usize`
    GiveInjector(usize),
    /// push through a fresh injector of the current stream (created and dropped by U)
    Push(ItemSpec),
    Extend(Vec<ItemSpec>),
    /// block until the notify callback has been invoked since the last tick began
    WaitNotify,
    /// event loop: tick; while running { wait for a notification; tick } (bounded)
    EventLoop(u32),
    /// like EventLoop, but `update_config` is called after every tick that reported running,
    /// before waiting for the notification
    EventLoopCfg(u32),
    /// repeat tick (yielding to the worker) until it reports not running (bounded)
    Drain(u32),
    /// open a gate: a writer held inside its fill callback (IOp::PushHeld / ExtendHeld) may go on
    Release(usize),
    /// take / clone / drop injector handles held by U (for C20), index into U's handle list
    TakeHandle,
    CloneHandle(usize),
    DropHandle(usize),
    PushHandle(usize, ItemSpec),
    DropNucleo,
}

#[derive(Clone, Debug)]
pub enum IOp {
    /// wait for an injector in the hand-over slot (otherwise the thread's own initial handle is used)
    Await(usize),
    Push(ItemSpec),
    Extend(Vec<ItemSpec>),
    /// push whose fill callback blocks until gate `usize` is opened: the writer is held between
    /// reserving its index and publishing the item, without costing the explorer a preemption
    PushHeld(ItemSpec, usize),
    /// extend whose callback blocks on the gate when it reaches the item with the given position
    ExtendHeld(Vec<ItemSpec>, usize, usize),
    DropHandle,
}

#[derive(Clone, Debug)]
pub struct Scenario {
    pub name: String,
    pub pool_threads: usize,
    pub columns: u32,
    pub preload: Vec<ItemSpec>,
    pub u: Vec<UOp>,
    /// injector scripts; `true` = starts with a handle of the initial stream
    pub injectors: Vec<(bool, Vec<IOp>)>,
    pub slots: usize,
    /// preemption bound for this scenario
    pub bound: u32,
    /// suspend the run at every cancel poll (only possible with a one-thread pool)
    pub fine: bool,
    /// suspend at the points around the notification flag (only the wake-up property needs them)
    pub flag_points: bool,
}

impl Scenario {
    pub fn to_json(&self) -> Value {
        json!({"name": self.name, "pool_threads": self.pool_threads, "columns": self.columns,
               "preload": self.preload.iter().map(|i| i.text).collect::<Vec<_>>(),
               "U": self.u.iter().map(|o| format!("{o:?}")).collect::<Vec<_>>(),
               "injectors": self.injectors.iter().map(|(own, s)| json!({"initial_handle": own, "script": s.iter().map(|o| format!("{o:?}")).collect::<Vec<_>>()})).collect::<Vec<_>>()})
    }
}

/// One published item of the snapshot's stream, with the reference facts the monitors need.
#[derive(Clone, Debug, PartialEq, Eq)]
pub struct Uni {
    pub idx: u32,
    pub data: ItemData,
    /// total length of the matcher columns (tie breaker of the documented order)
    pub len: u32,
    /// score of the *snapshot's* pattern for this item on the reference matcher
    pub ref_score: Option<u32>,
}

/// A deep copy of what the snapshot shows, taken by U between operations.
#[derive(Clone, Debug)]
pub struct SnapCopy {
    pub item_count: u32,
    pub matches: Vec<(u32, u32)>, // (score, idx)
    pub items: Vec<Option<ItemData>>, // per match: get_item(idx)
    /// every index < UNIVERSE for which the snapshot's stream holds a published item right now
    pub universe: Vec<Uni>,
    pub pattern: String,
    pub pattern_empty: bool,
    pub consistent_accessors: bool,
}

impl SnapCopy {
    /// what `changed == false` promises to leave untouched
    pub fn same_view(&self, o: &SnapCopy) -> bool {
        self.item_count == o.item_count && self.matches == o.matches && self.pattern == o.pattern && self.items == o.items
    }
}

/// Number of indices scanned when copying a snapshot: 40 for the small scenarios, the preload
/// size plus a margin for the large-input family (set per scenario before it is run).
pub static UNIVERSE_N: std::sync::atomic::AtomicU32 = std::sync::atomic::AtomicU32::new(40);
#[allow(non_snake_case)]
fn UNIVERSE() -> u32 {
    UNIVERSE_N.load(std::sync::atomic::Ordering::Relaxed)
}

#[derive(Clone, Debug)]
pub enum Obs {
    TickBegin { t: u64, pattern: String, gen: u32 },
    TickEnd { t: u64, changed: bool, running: bool, before: SnapCopy, after: SnapCopy, cur_pattern: String },
    Restart { t: u64, clear: bool, before: SnapCopy, after: SnapCopy, new_gen: u32 },
    PushCall { t: u64, thread: usize, gen: u32, ids: Vec<u32> },
    PushReturn { t: u64, thread: usize, gen: u32, ids: Vec<u32>, first_idx: Option<u32>, visible: bool },
    Active { t: u64, reported: usize, expected: usize, op: String },
    WaitNotify { t: u64 },
    Quiescent { t: u64, snap: SnapCopy, cur_pattern: String, gen: u32 },
    Reparse { t: u64, text: String, append: bool },
    Dropped { t: u64 },
    HorizonExceeded { t: u64, what: String },
    Panicked { t: u64, thread: usize, msg: String },
    /// destruction bookkeeping after an operation (C11)
    DropCheck { t: u64, dropped: Vec<ItemData>, live_handles: Vec<i64>, cur_gen: Option<u32>, op: String },
    /// after every thread has finished and every handle is gone
    Final { dropped: Vec<ItemData> },
}

pub struct RunResult {
    pub trace: Trace,
    pub obs: Vec<Obs>,
    /// (gen, id) -> text, for every item any script may inject
    pub config: Config,
}

fn pattern_string<T: Sync + Send + 'static>(p: &nucleo::pattern::MultiPattern, cols: u32) -> String {
    let _ = std::marker::PhantomData::<T>;
    (0..cols as usize)
        .map(|c| format!("{:?}", p.column_pattern(c).atoms))
        .collect::<Vec<_>>()
        .join("|")
}

fn copy_snapshot(n: &Nucleo<Tracked>, cols: u32, refm: &mut Matcher) -> SnapCopy {
    let s = n.snapshot();
    let matches: Vec<(u32, u32)> = s.matches().iter().map(|m| (m.score, m.idx)).collect();
    // get_item is the checked accessor: it must be consulted before any unchecked one
    let items: Vec<Option<ItemData>> = matches.iter().map(|&(_, idx)| s.get_item(idx).map(|it| it.data.key)).collect();
    let mut consistent = s.matched_item_count() as usize == matches.len();
    if items.iter().all(|i| i.is_some()) {
        // only now is it safe to touch the unchecked accessors
        let via_iter: Vec<ItemData> = s.matched_items(..).map(|it| it.data.key).collect();
        let via_get: Vec<Option<ItemData>> = (0..matches.len() as u32 + 1).map(|k| s.get_matched_item(k).map(|it| it.data.key)).collect();
        let want: Vec<ItemData> = items.iter().map(|i| i.unwrap()).collect();
        consistent &= via_iter == want;
        consistent &= via_get.len() == want.len() + 1 && via_get[want.len()].is_none() && via_get[..want.len()].iter().all(|x| x.is_some());
        consistent &= via_get[..want.len()].iter().map(|x| x.unwrap()).collect::<Vec<_>>() == want;
        // every sub-range in every bound form (small snapshots): contents, reported length, reverse order
        if want.len() <= 6 {
            use std::ops::Bound;
            let n = want.len() as u32;
            for i in 0..=n {
                for j in i..=n {
                    let w = &want[i as usize..j as usize];
                    let mut forms: Vec<Vec<ItemData>> = vec![
                        s.matched_items(i..j).map(|it| it.data.key).collect(),
                        s.matched_items((Bound::Included(i), Bound::Excluded(j))).map(|it| it.data.key).collect(),
                    ];
                    let it = s.matched_items(i..j);
                    consistent &= it.len() == w.len();
                    let mut rev: Vec<ItemData> = s.matched_items(i..j).rev().map(|it| it.data.key).collect();
                    rev.reverse();
                    forms.push(rev);
                    if j > i {
                        forms.push(s.matched_items(i..=j - 1).map(|it| it.data.key).collect());
                    }
                    if i > 0 {
                        forms.push(s.matched_items((Bound::Excluded(i - 1), Bound::Excluded(j))).map(|it| it.data.key).collect());
                    }
                    if j == n {
                        forms.push(s.matched_items(i..).map(|it| it.data.key).collect());
                    }
                    if i == 0 {
                        forms.push(s.matched_items(..j).map(|it| it.data.key).collect());
                    }
                    consistent &= forms.iter().all(|f| f == w);
                }
            }
        }
    }
    let mut universe = Vec::new();
    for idx in 0..UNIVERSE() {
        if let Some(it) = s.get_item(idx) {
            universe.push(Uni {
                idx,
                data: it.data.key,
                len: it.matcher_columns.iter().map(|c| c.len() as u32).sum(),
                ref_score: s.pattern().score(it.matcher_columns, refm),
            });
        }
    }
    SnapCopy {
        item_count: s.item_count(),
        matches,
        items,
        universe,
        pattern: pattern_string::<ItemData>(s.pattern(), cols),
        pattern_empty: s.pattern().is_empty(),
        consistent_accessors: consistent,
    }
}

fn fill(spec_text: &'static str, cols: &mut [Utf32String]) {
    // column 0 = the text
    for (k, c) in cols.iter_mut().enumerate() {
        // further columns hold the text reversed (so that the columns of different items differ)
        *c = if k == 0 { Utf32String::from(spec_text) } else { Utf32String::from(spec_text.chars().rev().collect::<String>().as_str()) };
    }
}

static REF_MATCHERS: Mutex<Vec<(Matcher, Matcher)>> = Mutex::new(Vec::new());

struct Shared {
    obs: Mutex<Vec<Obs>>,
    slots: Mutex<Vec<Option<(Injector<Tracked>, u32)>>>,
}

fn do_push(exec: &Exec, shared: &Shared, thread: usize, inj: &Injector<Tracked>, gen: u32, items: &[ItemSpec], batch: bool) {
    do_push_held(exec, shared, thread, inj, gen, items, batch, None)
}

/// `hold = Some((position, gate))`: the fill callback of the item at `position` parks until the gate is open.
#[allow(clippy::too_many_arguments)]
fn do_push_held(exec: &Exec, shared: &Shared, thread: usize, inj: &Injector<Tracked>, gen: u32, items: &[ItemSpec], batch: bool, hold: Option<(usize, usize)>) {
    let ids: Vec<u32> = items.iter().map(|i| i.id).collect();
    let t = exec.log(format!("push-call gen={gen} ids={ids:?}"), 0);
    shared.obs.lock().unwrap().push(Obs::PushCall { t, thread, gen, ids: ids.clone() });
    let first_idx;
    if batch {
        let before = inj.injected_items();
        let lookup: std::collections::HashMap<u32, &'static str> = items.iter().map(|i| (i.id, i.text)).collect();
        let held_id = hold.map(|(pos, _)| items[pos].id);
        inj.extend(items.iter().map(|i| Tracked { key: ItemData { gen, id: i.id } }).collect::<Vec<_>>().into_iter(), |d, cols| {
            if Some(d.key.id) == held_id {
                exec.point("I:held", hold.unwrap().1 as u64, Wait::Slot(hold.unwrap().1));
            }
            fill(lookup[&d.key.id], cols)
        });
        let _ = before;
        first_idx = None;
    } else {
        let it = &items[0];
        let text = it.text;
        first_idx = Some(inj.push(Tracked { key: ItemData { gen, id: it.id } }, move |_, cols| {
            if let Some((_, gate)) = hold {
                exec.point("I:held", gate as u64, Wait::Slot(gate));
            }
            fill(text, cols)
        }));
    }
    // the call has returned: every item of the call must be visible now (and where push said)
    let mut visible = ids.iter().all(|id| (0..UNIVERSE()).any(|i| inj.get(i).map_or(false, |it| it.data.key.id == *id && it.data.key.gen == gen)));
    if let Some(i) = first_idx {
        visible &= inj.get(i).map_or(false, |it| it.data.key.id == items[0].id);
    }
    let t = exec.log(format!("push-return gen={gen} ids={ids:?} idx={first_idx:?}"), 0);
    shared.obs.lock().unwrap().push(Obs::PushReturn { t, thread, gen, ids, first_idx, visible });
}

/// Runs one execution of `scn` under the schedule `prefix`.
pub fn run_scenario(scn: &Scenario, prefix: &[usize]) -> RunResult {
    let config = Config::DEFAULT;
    DROPS.lock().unwrap_or_else(|e| e.into_inner()).clear();
    HANDLES.lock().unwrap_or_else(|e| e.into_inner()).clear();
    UNIVERSE_N.store(if scn.name.starts_with("Big/") { scn.preload.len() as u32 + 64 } else { 40 }, std::sync::atomic::Ordering::Relaxed);
    let exec = Exec::new(prefix.to_vec(), scn.pool_threads, scn.slots, scn.fine, scn.flag_points);
    let shared = Arc::new(Shared {
        obs: Mutex::new(Vec::new()),
        slots: Mutex::new((0..scn.slots).map(|_| None).collect()),
    });
    let exec_n = exec.clone();
    let notify: Arc<dyn Fn() + Sync + Send> = Arc::new(move || exec_n.notify());
    let nucleo: Nucleo<Tracked> = Nucleo::new(config.clone(), notify, Some(scn.pool_threads), scn.columns);
    exec.set_probe(nucleo.verif_worker_locked_probe());
    exec.set_flag_addr(nucleo.verif_should_notify_addr());
    exec.set_cancel_addr(nucleo.verif_canceled_addr());
    // preload single-threaded, before any scheduling starts (the hooks see an unregistered thread)
    if !scn.preload.is_empty() {
        let inj = nucleo.injector();
        for it in &scn.preload {
            let text = it.text;
            inj.push(Tracked { key: ItemData { gen: 0, id: it.id } }, move |_, cols| fill(text, cols));
        }
    }
    let initial_handles: Vec<Option<Injector<Tracked>>> = scn.injectors.iter().map(|(own, _)| if *own { Some(nucleo.injector()) } else { None }).collect();
    for h in &initial_handles {
        if h.is_some() {
            handle_delta(0, 1);
        }
    }

    exec.register(T_U);
    for k in 0..scn.injectors.len() {
        exec.register(1 + k);
    }
    let cols = scn.columns;
    let mut handles = Vec::new();
    // ---- U
    {
        let exec = exec.clone();
        let shared = shared.clone();
        let script = scn.u.clone();
        handles.push(std::thread::spawn(move || {
            exec.thread_start(T_U);
            let exec2 = exec.clone();
            let shared2 = shared.clone();
            let body = std::panic::AssertUnwindSafe(move || {
            let mut nucleo = Some(nucleo);
            let mut gen = 0u32;
            let mut held: Vec<Option<(Injector<Tracked>, u32)>> = Vec::new();
            let mut last_text: Vec<String> = vec![String::new(); cols as usize];
            let mut tick_notify_base = 0u64;
            // reference matchers are reused across executions (creating one costs a 135 KiB zeroed allocation)
            // taken out of a pool and put back at the end: a thread of an abandoned (deadlocked)
            // execution is parked for ever and must not hold a lock the next execution needs
            let mut pair = REF_MATCHERS.lock().unwrap_or_else(|e| e.into_inner()).pop().unwrap_or_else(|| (Matcher::new(Config::DEFAULT), Matcher::new(Config::DEFAULT)));
            let mut refm: &mut Matcher = &mut pair.0;
            let mut refm2: &mut Matcher = &mut pair.1;
            let mut tick = |n: &mut Nucleo<Tracked>, gen: u32, base: &mut u64, refm: &mut Matcher| -> nucleo::Status {
                let before = copy_snapshot(n, cols, refm);
                *base = exec.notify_count();
                let t = exec.log("tick-begin".into(), 0);
                shared.obs.lock().unwrap().push(Obs::TickBegin { t, pattern: pattern_string::<ItemData>(&n.pattern, cols), gen });
                let st = n.tick(0);
                let after = copy_snapshot(n, cols, refm);
                let t = exec.log(format!("tick-end changed={} running={}", st.changed, st.running), 0);
                shared.obs.lock().unwrap().push(Obs::TickEnd {
                    t,
                    changed: st.changed,
                    running: st.running,
                    before,
                    after,
                    cur_pattern: pattern_string::<ItemData>(&n.pattern, cols),
                });
                st
            };
            for op in &script {
                exec.point("U:op", 0, Wait::None);
                // after the matcher was dropped only handle operations remain meaningful
                if nucleo.is_none() && !matches!(op, UOp::CloneHandle(_) | UOp::DropHandle(_) | UOp::PushHandle(..) | UOp::DropNucleo) {
                    continue;
                }
                match op {
                    UOp::Reparse(col, text) => {
                        let n = nucleo.as_mut().unwrap();
                        let append = text.starts_with(last_text[*col].as_str());
                        n.pattern.reparse(*col, text, CaseMatching::Smart, Normalization::Smart, append);
                        last_text[*col] = (*text).to_owned();
                        let t = exec.log(format!("reparse {text:?} append={append}"), 0);
                        shared.obs.lock().unwrap().push(Obs::Reparse { t, text: (*text).to_owned(), append });
                    }
                    UOp::Tick => {
                        tick(nucleo.as_mut().unwrap(), gen, &mut tick_notify_base, &mut refm);
                    }
                    UOp::Restart(clear) => {
                        let n = nucleo.as_mut().unwrap();
                        let before = copy_snapshot(n, cols, &mut refm2);
                        n.restart(*clear);
                        gen += 1;
                        let after = copy_snapshot(n, cols, &mut refm2);
                        let t = exec.log(format!("restart clear={clear}"), 0);
                        shared.obs.lock().unwrap().push(Obs::Restart { t, clear: *clear, before, after, new_gen: gen });
                    }
                    UOp::GiveInjector(slot) => {
                        let inj = nucleo.as_ref().unwrap().injector();
                        handle_delta(gen, 1);
                        shared.slots.lock().unwrap()[*slot] = Some((inj, gen));
                        exec.fill_slot(*slot);
                    }
                    UOp::Push(it) => {
                        let inj = nucleo.as_ref().unwrap().injector();
                        do_push(&exec, &shared, 0, &inj, gen, std::slice::from_ref(it), false);
                    }
                    UOp::Extend(items) => {
                        let inj = nucleo.as_ref().unwrap().injector();
                        do_push(&exec, &shared, 0, &inj, gen, items, true);
                    }
                    UOp::WaitNotify => {
                        let t = exec.log("wait-notify".into(), 0);
                        shared.obs.lock().unwrap().push(Obs::WaitNotify { t });
                        exec.point("U:wait_notify", 0, Wait::Notify(tick_notify_base));
                    }
                    UOp::EventLoop(horizon) | UOp::EventLoopCfg(horizon) => {
                        let with_cfg = matches!(op, UOp::EventLoopCfg(_));
                        let mut k = 0;
                        loop {
                            let st = tick(nucleo.as_mut().unwrap(), gen, &mut tick_notify_base, &mut refm);
                            if with_cfg && st.running {
                                nucleo.as_mut().unwrap().update_config(Config::DEFAULT);
                                exec.log("update_config".into(), 0);
                            }
                            if !st.running {
                                let n = nucleo.as_ref().unwrap();
                                let t = exec.log("quiescent".into(), 0);
                                shared.obs.lock().unwrap().push(Obs::Quiescent { t, snap: copy_snapshot(n, cols, &mut refm2), cur_pattern: pattern_string::<ItemData>(&n.pattern, cols), gen });
                                break;
                            }
                            k += 1;
                            if k > *horizon {
                                let t = exec.log("horizon".into(), 0);
                                shared.obs.lock().unwrap().push(Obs::HorizonExceeded { t, what: "event loop still running".into() });
                                break;
                            }
                            let t = exec.log("wait-notify".into(), 0);
                            shared.obs.lock().unwrap().push(Obs::WaitNotify { t });
                            exec.point("U:wait_notify", 0, Wait::Notify(tick_notify_base));
                        }
                    }
                    UOp::Drain(horizon) => {
                        // the convergence claim starts "once no injector is active any more"
                        exec.point("U:drain_injectors_done", 0, Wait::InjectorsDone);
                        let mut k = 0;
                        loop {
                            let st = tick(nucleo.as_mut().unwrap(), gen, &mut tick_notify_base, &mut refm);
                            if !st.running {
                                let n = nucleo.as_ref().unwrap();
                                let t = exec.log("quiescent".into(), 0);
                                shared.obs.lock().unwrap().push(Obs::Quiescent { t, snap: copy_snapshot(n, cols, &mut refm2), cur_pattern: pattern_string::<ItemData>(&n.pattern, cols), gen });
                                break;
                            }
                            k += 1;
                            if k > *horizon {
                                let t = exec.log("horizon".into(), 0);
                                shared.obs.lock().unwrap().push(Obs::HorizonExceeded { t, what: "drain did not reach running=false".into() });
                                break;
                            }
                            // "wait long enough": block until the run in flight has released the worker
                            exec.point("U:drain_wait", 0, Wait::WorkerLock);
                        }
                    }
                    UOp::Release(gate) => {
                        exec.fill_slot(*gate);
                    }
                    UOp::TakeHandle => {
                        if let Some(n) = nucleo.as_ref() {
                            held.push(Some((n.injector(), gen)));
                            handle_delta(gen, 1);
                        }
                    }
                    UOp::CloneHandle(k) => {
                        if let Some(Some((h, g))) = held.get(*k) {
                            let c = (h.clone(), *g);
                            handle_delta(*g, 1);
                            held.push(Some(c));
                        }
                    }
                    UOp::DropHandle(k) => {
                        if let Some(h) = held.get_mut(*k) {
                            if let Some((_, g)) = h {
                                handle_delta(*g, -1);
                            }
                            *h = None;
                        }
                    }
                    UOp::PushHandle(k, it) => {
                        if let Some(Some((h, g))) = held.get(*k) {
                            do_push(&exec, &shared, 0, h, *g, std::slice::from_ref(it), false);
                        }
                    }
                    UOp::DropNucleo => {
                        drop(nucleo.take());
                        let t = exec.log("nucleo-dropped".into(), 0);
                        shared.obs.lock().unwrap().push(Obs::Dropped { t });
                    }
                }
                {
                    let dropped = DROPS.lock().unwrap_or_else(|e| e.into_inner()).clone();
                    let live = HANDLES.lock().unwrap_or_else(|e| e.into_inner()).clone();
                    let t = exec.now();
                    shared.obs.lock().unwrap().push(Obs::DropCheck { t, dropped, live_handles: live, cur_gen: nucleo.as_ref().map(|_| gen), op: format!("{op:?}") });
                }
                if let Some(n) = nucleo.as_ref() {
                    // a panic inside the count itself (arithmetic underflow) is a wrong count
                    let reported = std::panic::catch_unwind(std::panic::AssertUnwindSafe(|| n.active_injectors())).unwrap_or(usize::MAX);
                    let expected = held.iter().filter(|h| h.as_ref().map_or(false, |(_, g)| *g == gen)).count();
                    let t = exec.now();
                    shared.obs.lock().unwrap().push(Obs::Active { t, reported, expected, op: format!("{op:?}") });
                }
            }
            exec.point("U:end", 0, Wait::None);
            for h in held.iter().flatten() {
                handle_delta(h.1, -1);
            }
            drop(held);
            drop(nucleo);
            REF_MATCHERS.lock().unwrap_or_else(|e| e.into_inner()).push(pair);
            });
            if let Err(p) = std::panic::catch_unwind(body) {
                let msg = crate::dom::panic_msg(&p);
                let t = exec2.log(format!("PANIC {msg}"), 0);
                shared2.obs.lock().unwrap().push(Obs::Panicked { t, thread: 0, msg });
            }
            exec2.thread_finish(T_U);
        }));
    }
    // ---- injector threads
    for (k, ((_, script), initial)) in scn.injectors.iter().zip(initial_handles).enumerate() {
        let exec = exec.clone();
        let shared = shared.clone();
        let script = script.clone();
        let tid = 1 + k;
        handles.push(std::thread::spawn(move || {
            exec.thread_start(tid);
            let exec2 = exec.clone();
            let shared2 = shared.clone();
            let body = std::panic::AssertUnwindSafe(move || {
            let mut handle: Option<(Injector<Tracked>, u32)> = initial.map(|h| (h, 0));
            for op in &script {
                match op {
                    IOp::Await(slot) => {
                        exec.point("I:await", *slot as u64, Wait::Slot(*slot));
                        handle = shared.slots.lock().unwrap()[*slot].take();
                    }
                    IOp::Push(it) => {
                        exec.point("I:op", 0, Wait::None);
                        if let Some((h, g)) = &handle {
                            do_push(&exec, &shared, tid, h, *g, std::slice::from_ref(it), false);
                        }
                    }
                    IOp::Extend(items) => {
                        exec.point("I:op", 0, Wait::None);
                        if let Some((h, g)) = &handle {
                            do_push(&exec, &shared, tid, h, *g, items, true);
                        }
                    }
                    IOp::PushHeld(it, gate) => {
                        exec.point("I:op", 0, Wait::None);
                        if let Some((h, g)) = &handle {
                            do_push_held(&exec, &shared, tid, h, *g, std::slice::from_ref(it), false, Some((0, *gate)));
                        }
                    }
                    IOp::ExtendHeld(items, pos, gate) => {
                        exec.point("I:op", 0, Wait::None);
                        if let Some((h, g)) = &handle {
                            do_push_held(&exec, &shared, tid, h, *g, items, true, Some((*pos, *gate)));
                        }
                    }
                    IOp::DropHandle => {
                        exec.point("I:op", 0, Wait::None);
                        if let Some((_, g)) = &handle {
                            handle_delta(*g, -1);
                        }
                        handle = None;
                    }
                }
                {
                    let dropped = DROPS.lock().unwrap_or_else(|e| e.into_inner()).clone();
                    let live = HANDLES.lock().unwrap_or_else(|e| e.into_inner()).clone();
                    let t = exec.now();
                    shared.obs.lock().unwrap().push(Obs::DropCheck { t, dropped, live_handles: live, cur_gen: None, op: format!("{op:?}") });
                }
            }
            if let Some((_, g)) = &handle {
                handle_delta(*g, -1);
            }
            drop(handle);
            });
            if let Err(p) = std::panic::catch_unwind(body) {
                let msg = crate::dom::panic_msg(&p);
                let t = exec2.log(format!("PANIC {msg}"), 0);
                shared2.obs.lock().unwrap().push(Obs::Panicked { t, thread: tid, msg });
            }
            exec2.thread_finish(tid);
        }));
    }
    let trace = exec.drive();
    let completed = matches!(trace.outcome, Outcome::Completed);
    if completed {
        for h in handles {
            let _ = h.join();
        }
    }
    // (threads of an abandoned execution stay parked for ever; they are leaked on purpose)
    let mut obs = std::mem::take(&mut *shared.obs.lock().unwrap());
    if completed {
        // a slot that was filled but never awaited still holds a handle: release it first
        shared.slots.lock().unwrap().clear();
        obs.push(Obs::Final { dropped: DROPS.lock().unwrap_or_else(|e| e.into_inner()).clone() });
    }
    RunResult { trace, obs, config }
}

/// score_ref: the pattern's score for an item on a fresh matcher
pub fn fresh_matcher(cfg: &Config) -> Matcher {
    Matcher::new(cfg.clone())
}
