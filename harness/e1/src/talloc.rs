//! Counting allocator: sees allocations of a reserved size window (column storage of tracked
//! items) per thread, quarantines their frees until the end of a history so that a second free
//! of the same block is *detected* instead of corrupting the heap, and reports leaks.
//!
//! Everything is thread-local and fixed-size (no allocation inside the allocator).

use std::alloc::{GlobalAlloc, Layout, System};
use std::cell::{Cell, UnsafeCell};

/// Tracked blocks are `Box<[char]>` with an *odd* number of characters in TRACK_LO..TRACK_HI
/// (4 bytes each, so the byte size is never a multiple of 8: the harness's own vectors of
/// 8-byte elements with alignment 4 cannot collide with the window).
pub const TRACK_LO: usize = 3001;
pub const TRACK_HI: usize = 3001 + 16384;
const QMAX: usize = 16384;

pub struct Tally {
    pub active: Cell<bool>,
    pub allocs: UnsafeCell<[u16; TRACK_HI - TRACK_LO]>,
    pub frees: UnsafeCell<[u16; TRACK_HI - TRACK_LO]>,
    pub quarantine: UnsafeCell<[(usize, usize); QMAX]>,
    pub qlen: Cell<usize>,
    pub double_frees: Cell<usize>,
    pub first_double_free_len: Cell<usize>,
    pub overflow: Cell<bool>,
}

thread_local! {
    static TALLY: Tally = const { Tally {
        active: Cell::new(false),
        allocs: UnsafeCell::new([0; TRACK_HI - TRACK_LO]),
        frees: UnsafeCell::new([0; TRACK_HI - TRACK_LO]),
        quarantine: UnsafeCell::new([(0, 0); QMAX]),
        qlen: Cell::new(0),
        double_frees: Cell::new(0),
        first_double_free_len: Cell::new(0),
        overflow: Cell::new(false),
    } };
}

pub struct TrackingAlloc;

#[inline]
fn class(layout: &Layout) -> Option<usize> {
    if layout.align() == 4 && layout.size() % 4 == 0 {
        let n = layout.size() / 4;
        if n % 2 == 1 && (TRACK_LO..TRACK_HI).contains(&n) {
            return Some(n - TRACK_LO);
        }
    }
    None
}

unsafe impl GlobalAlloc for TrackingAlloc {
    unsafe fn alloc(&self, layout: Layout) -> *mut u8 {
        let p = System.alloc(layout);
        if let Some(c) = class(&layout) {
            let _ = TALLY.try_with(|t| {
                if t.active.get() {
                    (*t.allocs.get())[c] += 1;
                }
            });
        }
        p
    }
    unsafe fn dealloc(&self, ptr: *mut u8, layout: Layout) {
        if let Some(c) = class(&layout) {
            let mut handled = false;
            let _ = TALLY.try_with(|t| {
                if t.active.get() {
                    let q = &mut *t.quarantine.get();
                    let n = t.qlen.get();
                    let addr = ptr as usize;
                    if q[..n].iter().any(|&(a, _)| a == addr) {
                        t.double_frees.set(t.double_frees.get() + 1);
                        if t.first_double_free_len.get() == 0 {
                            t.first_double_free_len.set(c + TRACK_LO);
                        }
                        handled = true; // already quarantined: do not free again
                        return;
                    }
                    (*t.frees.get())[c] += 1;
                    if n < QMAX {
                        q[n] = (addr, layout.size());
                        t.qlen.set(n + 1);
                        handled = true; // keep the block until the history ends
                    } else {
                        t.overflow.set(true);
                    }
                }
            });
            if handled {
                return;
            }
        }
        System.dealloc(ptr, layout)
    }
}

pub struct Summary {
    /// (length in chars, allocations, frees) for every tracked size that was used
    pub sizes: Vec<(usize, u16, u16)>,
    pub double_frees: usize,
    pub first_double_free_len: usize,
    pub overflow: bool,
}

/// Starts tracking on the current thread.
pub fn begin() {
    TALLY.with(|t| unsafe {
        (*t.allocs.get()).fill(0);
        (*t.frees.get()).fill(0);
        t.qlen.set(0);
        t.double_frees.set(0);
        t.first_double_free_len.set(0);
        t.overflow.set(false);
        t.active.set(true);
    });
}

/// Stops tracking, really frees the quarantined blocks and returns the tallies.
pub fn end() -> Summary {
    TALLY.with(|t| unsafe {
        t.active.set(false);
        let q = &*t.quarantine.get();
        for &(addr, size) in &q[..t.qlen.get()] {
            System.dealloc(addr as *mut u8, Layout::from_size_align_unchecked(size, 4));
        }
        t.qlen.set(0);
        let a = &*t.allocs.get();
        let f = &*t.frees.get();
        let mut sizes = Vec::new();
        for i in 0..a.len() {
            if a[i] != 0 || f[i] != 0 {
                sizes.push((i + TRACK_LO, a[i], f[i]));
            }
        }
        Summary {
            sizes,
            double_frees: t.double_frees.get(),
            first_double_free_len: t.first_double_free_len.get(),
            overflow: t.overflow.get(),
        }
    })
}
