//! C15 — pattern scores compose as a conjunction of atoms with negation.
//! Every list of atoms (from a pool covering every kind and polarity) up to a length bound x a
//! haystack pool x two configurations, on one shared matcher per thread, against per-atom results
//! computed on fresh matchers with direct matcher calls.

use common::{json, par_shards, threads, Acc, Report, Value};
use nucleo::pattern::MultiPattern;
use nucleo_matcher::pattern::{Atom, AtomKind, CaseMatching, Normalization, Pattern};
use nucleo_matcher::{Config, Matcher, Utf32Str, Utf32String};

use crate::algos::{call_indices, call_match, Algo};
use crate::c14::observe;

const ATOM_TEXTS: &[&str] = &[
    "a", "'ab", "^a", "b$", "^ab$", "!a", "!^a", "!b$", "!^ab$", "A", "ä", "zq", "ab", "!zq",
];
const HAYSTACKS: &[&str] = &[
    "", "a", "b", "ab", "ba", "aab", "abb", "xaxb", "A", "AB", "Ab", "ä", "äb", "a b", " ab",
    "ab ", "zq", "aäb", "ÄB", "b a", "bab", "abab", "x", "  ", "a/b", "ab/ab", "Äb", "aB", "bA",
    "zqab",
];
const LIST_POOL: &[&str] = &["ab", "a/b", "xaxb", "b", "ab", "Ab"];
const MULTI_TEXTS: &[&str] = &["", "a", "!a", "^a b$", "ab !zq", "A", "zq"];

fn kind_algo(k: AtomKind) -> Algo {
    match k {
        AtomKind::Fuzzy => Algo::Fuzzy,
        AtomKind::Substring => Algo::Substring,
        AtomKind::Prefix => Algo::Prefix,
        AtomKind::Postfix => Algo::Postfix,
        AtomKind::Exact => Algo::Exact,
        _ => unreachable!(),
    }
}

fn configs() -> Vec<(&'static str, Config)> {
    vec![
        ("default", Config::DEFAULT),
        ("match_paths", Config::DEFAULT.match_paths()),
    ]
}

/// Result of one atom alone: inner match score and indices, by direct matcher calls on a fresh
/// matcher configured like the atom documents (ignore_case / normalize overwritten per atom).
struct AtomAlone {
    negative: bool,
    inner: Option<u16>,
    indices: Vec<u32>,
}

fn atom_alone(atom: &Atom, base: &Config, hay: Utf32Str<'_>) -> AtomAlone {
    let o = observe(atom);
    let mut cfg = base.clone();
    cfg.ignore_case = o.ignore_case;
    cfg.normalize = o.normalize;
    let mut m = Matcher::new(cfg);
    let algo = kind_algo(atom.kind);
    let inner = call_match(&mut m, algo, hay, atom.needle_text());
    let mut idx = Vec::new();
    let mut m2 = Matcher::new(m.config.clone());
    let inner_i = call_indices(&mut m2, algo, hay, atom.needle_text(), &mut idx);
    if inner != inner_i {
        // C03's business, but the oracle below would be ill-defined
        idx.clear();
    }
    AtomAlone {
        negative: atom.negative,
        inner,
        indices: idx,
    }
}

fn expected(list: &[usize], table: &[AtomAlone]) -> (Option<u32>, Vec<u32>) {
    let mut score = 0u32;
    let mut idx = Vec::new();
    for &a in list {
        let t = &table[a];
        if t.negative {
            if t.inner.is_some() {
                return (None, Vec::new());
            }
        } else {
            match t.inner {
                None => return (None, Vec::new()),
                Some(s) => {
                    score += s as u32;
                    idx.extend_from_slice(&t.indices);
                }
            }
        }
    }
    (Some(score), idx)
}

fn decode_list(mut i: u64, k: usize, out: &mut Vec<usize>) {
    out.clear();
    let k = k as u64;
    let mut len = 0;
    let mut p = 1u64;
    while i >= p {
        i -= p;
        p *= k;
        len += 1;
    }
    out.resize(len, 0);
    for pos in (0..len).rev() {
        out[pos] = (i % k) as usize;
        i /= k;
    }
}

fn count_lists(k: usize, max_len: usize) -> u64 {
    crate::dom::count_strings(k, max_len)
}

const LONG_PATS: [&str; 4] = ["ab", "a", "a !x", "b$"];

struct Tagged<'a>(usize, &'a str);
impl AsRef<str> for Tagged<'_> {
    fn as_ref(&self) -> &str {
        self.1
    }
}

/// match_list over a list of `n` items drawn from a 7-string pool with many equal scores
fn long_list_case(ptxt: &str, cname: &str, cfg: &Config, n: usize, stride: usize, acc: &mut Acc) {
    let pool: [&str; 7] = ["ab", "a/b", "xaxb", "b", "Ab", "a b", "zzz"];
    let mut shared = Matcher::new(cfg.clone());
    let pat = Pattern::parse(ptxt, CaseMatching::Smart, Normalization::Smart);
    let single = Atom::parse(ptxt, CaseMatching::Smart, Normalization::Smart);
    let pool_scores: Vec<Option<u32>> = pool
        .iter()
        .map(|s| {
            let mut b = Vec::new();
            pat.score(Utf32Str::new(s, &mut b), &mut Matcher::new(cfg.clone()))
        })
        .collect();
    let idxs: Vec<usize> = (0..n).map(|i| (i * stride + i / 7) % pool.len()).collect();
    acc.evaluations += 1;
    acc.states += 1;
    acc.transitions += 1;
    if n > 20 {
        acc.nontrivial += 1;
    }
    let scored: Vec<(usize, Option<u32>)> = idxs.iter().enumerate().map(|(pos, &p)| (pos, pool_scores[p])).collect();
    let want = stable_sorted(&scored);
    let got = pat.match_list(idxs.iter().enumerate().map(|(pos, &p)| Tagged(pos, pool[p])), &mut shared);
    let got_v: Vec<(usize, u32)> = got.iter().map(|(t, s)| (t.0, *s)).collect();
    if got_v != want {
        acc.violation("C15/Pattern::match_list/long_list", "match_list on a long list is not the stably sorted list of matching inputs", || {
            json!({"pattern": ptxt, "config": cname, "items": n, "stride": stride, "first_difference_at": got_v.iter().zip(want.iter()).position(|(a, b)| a != b)})
        });
    }
    if pat.atoms.len() == 1 {
        let got = single.match_list(idxs.iter().enumerate().map(|(pos, &p)| Tagged(pos, pool[p])), &mut shared);
        let got_v: Vec<(usize, u32)> = got.iter().map(|(t, s)| (t.0, *s as u32)).collect();
        if got_v != want {
            acc.violation("C15/Atom::match_list/long_list", "Atom::match_list on a long list is not the stably sorted list of matching inputs", || {
                json!({"pattern": ptxt, "config": cname, "items": n, "stride": stride})
            });
        }
    }
}

fn stable_sorted<T: Clone, S: Copy + Ord>(items: &[(T, Option<S>)]) -> Vec<(T, S)> {
    // boring reference: repeated selection of the first maximal element
    let mut rest: Vec<(T, S)> = items.iter().filter_map(|(t, s)| s.map(|s| (t.clone(), s))).collect();
    let mut out = Vec::new();
    while !rest.is_empty() {
        let mut best = 0;
        for i in 1..rest.len() {
            if rest[i].1 > rest[best].1 {
                best = i;
            }
        }
        out.push(rest.remove(best));
    }
    out
}

pub fn run(tier: &str) -> ! {
    let mut rep = Report::new("C15", tier);
    crate::dom::quiet_panics();
    let thorough = rep.is_thorough();
    let max_atoms = if thorough { 6 } else { 3 };
    let atoms: Vec<Atom> = ATOM_TEXTS
        .iter()
        .map(|t| Atom::parse(t, CaseMatching::Smart, Normalization::Smart))
        .collect();
    let hays: Vec<Utf32String> = HAYSTACKS.iter().map(|h| Utf32String::from(*h)).collect();
    let cfgs = configs();
    // per (config, haystack): table of atoms alone
    let mut tables: Vec<Vec<Vec<AtomAlone>>> = Vec::new();
    for (_, cfg) in &cfgs {
        let mut per_h = Vec::new();
        for h in &hays {
            per_h.push(atoms.iter().map(|a| atom_alone(a, cfg, h.slice(..))).collect::<Vec<_>>());
        }
        tables.push(per_h);
    }
    let nlists = count_lists(atoms.len(), max_atoms);
    let chunk = 16u64;
    let shards = ((nlists + chunk - 1) / chunk) as usize;
    let priors: [&[u32]; 2] = [&[], &[9, 9]];
    let acc = par_shards(shards, threads(), |shard, acc| {
        let mut shared: Vec<Matcher> = cfgs.iter().map(|(_, c)| Matcher::new(c.clone())).collect();
        let mut list = Vec::new();
        let mut idx = Vec::new();
        let lo = shard as u64 * chunk;
        for li in lo..(lo + chunk).min(nlists) {
            decode_list(li, atoms.len(), &mut list);
            let mut pat = Pattern::default();
            pat.atoms = list.iter().map(|&a| atoms[a].clone()).collect();
            let has_neg = list.iter().any(|&a| atoms[a].negative);
            for (ci, (cname, _)) in cfgs.iter().enumerate() {
                for (hi, h) in hays.iter().enumerate() {
                    acc.evaluations += 1;
                    acc.states += 1;
                    let (want, want_idx) = expected(&list, &tables[ci][hi]);
                    let m = &mut shared[ci];
                    let got = pat.score(h.slice(..), m);
                    acc.transitions += 1;
                    let describe = |extra: Value| {
                        json!({"atoms": list.iter().map(|&a| ATOM_TEXTS[a]).collect::<Vec<_>>(), "haystack": HAYSTACKS[hi], "config": cname, "detail": extra})
                    };
                    if got != want {
                        let class = match (want, got) {
                            (Some(_), None) => "rejects_conjunction",
                            (None, Some(_)) => "accepts_non_conjunction",
                            _ => "score_sum",
                        };
                        acc.violation(&format!("C15/Pattern::score/{class}"), "Pattern::score differs from the conjunction of its atoms", || {
                            describe(json!({"expected": want, "got": got}))
                        });
                    }
                    for prior in priors {
                        idx.clear();
                        idx.extend_from_slice(prior);
                        let got_i = pat.indices(h.slice(..), m, &mut idx);
                        acc.transitions += 1;
                        if got_i != want {
                            acc.violation("C15/Pattern::indices/score", "Pattern::indices returns a different value than the conjunction", || {
                                describe(json!({"expected": want, "got": got_i}))
                            });
                        } else if idx.len() < prior.len() || &idx[..prior.len()] != prior {
                            acc.violation("C15/Pattern::indices/prior_content", "Pattern::indices modified earlier vector content", || describe(json!({"indices": idx})));
                        } else if want.is_some() && idx[prior.len()..] != want_idx[..] {
                            let g = idx[prior.len()..].to_vec();
                            acc.violation("C15/Pattern::indices/appended", "Pattern::indices does not append the positive atoms' indices in atom order", || {
                                describe(json!({"expected": want_idx, "got": g}))
                            });
                        }
                    }
                    if list.len() >= 2 && want.is_some() {
                        acc.nontrivial += 1;
                        if has_neg {
                            acc.sample(|| describe(json!({"score": want, "indices": want_idx})));
                        }
                    }
                    acc.outcome(match (want.is_some(), has_neg, list.is_empty()) {
                        (_, _, true) => "empty_pattern",
                        (true, true, _) => "match_with_negation",
                        (true, false, _) => "match",
                        (false, true, _) => "reject_with_negation",
                        (false, false, _) => "reject",
                    });
                }
            }
            // match_list on every sub-list of the pool (quick: lists of <= 3 items, thorough <= 4)
            if list.len() <= 2 {
                let max_items = if thorough { 5 } else { 3 };
                let nl = count_lists(LIST_POOL.len(), max_items);
                let mut items_i = Vec::new();
                for (ci, (cname, cfg)) in cfgs.iter().enumerate() {
                    // score of each pool entry on a fresh matcher
                    let pool_scores: Vec<Option<u32>> = LIST_POOL
                        .iter()
                        .map(|s| {
                            let mut buf = Vec::new();
                            pat.score(Utf32Str::new(s, &mut buf), &mut Matcher::new(cfg.clone()))
                        })
                        .collect();
                    for ii in 0..nl {
                        decode_list(ii, LIST_POOL.len(), &mut items_i);
                        acc.evaluations += 1;
                        let items: Vec<(usize, &str)> = items_i.iter().enumerate().map(|(pos, &p)| (pos, LIST_POOL[p])).collect();
                        // tag each input with its position so that "each once" and stability are observable
                        struct Tagged<'a>(usize, &'a str);
                        impl AsRef<str> for Tagged<'_> {
                            fn as_ref(&self) -> &str {
                                self.1
                            }
                        }
                        let got = pat.match_list(items.iter().map(|&(p, s)| Tagged(p, s)), &mut shared[ci]);
                        acc.transitions += 1;
                        let want: Vec<(usize, u32)> = if pat.atoms.is_empty() {
                            items.iter().map(|&(p, _)| (p, 0)).collect()
                        } else {
                            let scored: Vec<(usize, Option<u32>)> = items_i.iter().enumerate().map(|(pos, &p)| (pos, pool_scores[p])).collect();
                            stable_sorted(&scored)
                        };
                        let got_v: Vec<(usize, u32)> = got.iter().map(|(t, s)| (t.0, *s)).collect();
                        if got_v != want {
                            acc.violation("C15/Pattern::match_list", "match_list is not the stably sorted list of matching inputs", || {
                                json!({"atoms": list.iter().map(|&a| ATOM_TEXTS[a]).collect::<Vec<_>>(), "config": cname,
                                       "items": items.iter().map(|x| x.1).collect::<Vec<_>>(), "expected(position,score)": want, "got(position,score)": got_v})
                            });
                        }
                        if list.len() == 1 {
                            // Atom::match_list for the single atom
                            let a = &atoms[list[0]];
                            let got = a.match_list(items.iter().map(|&(p, s)| Tagged(p, s)), &mut shared[ci]);
                            acc.transitions += 1;
                            let got_v: Vec<(usize, u32)> = got.iter().map(|(t, s)| (t.0, *s as u32)).collect();
                            if got_v != want {
                                acc.violation("C15/Atom::match_list", "Atom::match_list is not the stably sorted list of matching inputs", || {
                                    json!({"atom": ATOM_TEXTS[list[0]], "config": cname, "items": items.iter().map(|x| x.1).collect::<Vec<_>>(),
                                           "expected(position,score)": want, "got(position,score)": got_v})
                                });
                            }
                        }
                    }
                }
            }
        }
    });
    rep.acc.merge(acc);

    // match_list on long input lists with interleaved ties (the stability of the sort only shows
    // beyond the small-slice fast paths of the sorting routine): every length 0..=96 and 200, 1000
    {
        let mut acc = Acc::new();
        for (cname, cfg) in &cfgs {
            for ptxt in LONG_PATS {
                let lens: Vec<usize> = (0..=96).chain([200, 1000]).collect();
                for &n in &lens {
                    for stride in [1usize, 3, 5] {
                        long_list_case(ptxt, cname, cfg, n, stride, &mut acc);
                    }
                }
            }
        }
        rep.acc.merge(acc);
    }

    // many long atoms: the sum of the atom scores leaves the 16-bit range (an atom's own score is
    // a u16, the pattern's a u32)
    {
        let mut acc = Acc::new();
        let word: String = "ab-cd_ef/gh ij".chars().cycle().take(120).collect();
        let hay_text = format!("{word} tail");
        let hay = Utf32String::from(hay_text.as_str());
        for (cname, cfg) in &cfgs {
            let mut m = Matcher::new(cfg.clone());
            for needle_len in [20usize, 60, 100, 120] {
                let text: String = word.chars().take(needle_len).filter(|c| *c != ' ').collect();
                let atom = Atom::new(&text, CaseMatching::Smart, Normalization::Smart, nucleo_matcher::pattern::AtomKind::Fuzzy, false);
                let alone = atom.score(hay.slice(..), &mut Matcher::new(cfg.clone()));
                for k in [1usize, 2, 3, 8, 16, 26, 27, 28, 29, 30, 40, 64, 100] {
                    acc.evaluations += 1;
                    acc.states += 1;
                    acc.transitions += 2;
                    acc.nontrivial += 1;
                    let mut pat = Pattern::default();
                    pat.atoms = vec![atom.clone(); k];
                    let want = alone.map(|s| s as u32 * k as u32);
                    let got = std::panic::catch_unwind(std::panic::AssertUnwindSafe(|| pat.score(hay.slice(..), &mut m)));
                    let mut idx = Vec::new();
                    let got_i = std::panic::catch_unwind(std::panic::AssertUnwindSafe(|| pat.indices(hay.slice(..), &mut m, &mut idx)));
                    let describe = |which: &str, g: String| json!({"atom_needle_len": text.chars().count(), "atoms": k, "config": cname, "entry": which, "one_atom_alone": alone, "expected": want, "got": g});
                    match got {
                        Ok(g) if g == want => {}
                        Ok(g) => acc.violation("C15/Pattern::score/many_atoms", "Pattern::score of many atoms is not the sum of the atoms' scores", || describe("score", format!("{g:?}"))),
                        Err(_) => {
                            m = Matcher::new(cfg.clone());
                            acc.violation("C15/Pattern::score/many_atoms", "Pattern::score of many atoms panicked", || describe("score", "panic".into()))
                        }
                    }
                    match got_i {
                        Ok(g) if g == want => {}
                        Ok(g) => acc.violation("C15/Pattern::indices/many_atoms", "Pattern::indices of many atoms does not return the sum of the atoms' scores", || describe("indices", format!("{g:?}"))),
                        Err(_) => {
                            m = Matcher::new(cfg.clone());
                            acc.violation("C15/Pattern::indices/many_atoms", "Pattern::indices of many atoms panicked", || describe("indices", "panic".into()))
                        }
                    }
                }
            }
        }
        rep.acc.merge(acc);
    }

    // multi-column patterns: every pair of column texts x every pair of haystacks
    let mut acc = Acc::new();
    for (cname, cfg) in &cfgs {
        let mut shared = Matcher::new(cfg.clone());
        for t0 in MULTI_TEXTS {
            for t1 in MULTI_TEXTS {
                let mut mp = MultiPattern::new(2);
                mp.reparse(0, t0, CaseMatching::Smart, Normalization::Smart, false);
                mp.reparse(1, t1, CaseMatching::Smart, Normalization::Smart, false);
                let p0 = Pattern::parse(t0, CaseMatching::Smart, Normalization::Smart);
                let p1 = Pattern::parse(t1, CaseMatching::Smart, Normalization::Smart);
                if mp.column_pattern(0).atoms != p0.atoms || mp.column_pattern(1).atoms != p1.atoms {
                    acc.violation("C15/MultiPattern/column_pattern", "column pattern differs from Pattern::parse of its text", || json!({"texts": [t0, t1]}));
                }
                if mp.is_empty() != (p0.atoms.is_empty() && p1.atoms.is_empty()) {
                    acc.violation("C15/MultiPattern/is_empty", "is_empty wrong", || json!({"texts": [t0, t1]}));
                }
                for (h0i, h0) in hays.iter().enumerate() {
                    for (h1i, h1) in hays.iter().enumerate() {
                        acc.evaluations += 1;
                        acc.states += 1;
                        let s0 = p0.score(h0.slice(..), &mut Matcher::new(cfg.clone()));
                        let s1 = p1.score(h1.slice(..), &mut Matcher::new(cfg.clone()));
                        let want = match (s0, s1) {
                            (Some(a), Some(b)) => Some(a + b),
                            _ => None,
                        };
                        let cols = [h0.clone(), h1.clone()];
                        let got = mp.score(&cols, &mut shared);
                        acc.transitions += 1;
                        if got != want {
                            acc.violation("C15/MultiPattern::score", "multi-column score is not the conjunction across columns", || {
                                json!({"texts": [t0, t1], "haystacks": [HAYSTACKS[h0i], HAYSTACKS[h1i]], "config": cname, "expected": want, "got": got})
                            });
                        }
                        if want.is_some() && !t0.is_empty() && !t1.is_empty() {
                            acc.nontrivial += 1;
                        }
                    }
                }
            }
        }
    }
    rep.acc.merge(acc);
    rep.acc.traces = rep.acc.transitions;
    rep.exhaustive = true;
    rep.bound = format!(
        "all lists of <= {max_atoms} atoms from a pool of {} x {} haystacks x 2 configurations; match_list on every list of <= {} inputs from a pool of {} for every pattern of <= 2 atoms; all {}x{} two-column patterns x all haystack pairs",
        atoms.len(), hays.len(), if thorough { 5 } else { 3 }, LIST_POOL.len(), MULTI_TEXTS.len(), MULTI_TEXTS.len()
    );
    rep.rule = "complete enumeration of atom lists over the pool; non-trivial = at least two atoms and the conjunction matches".into();
    rep.extra("atom_pool", json!(ATOM_TEXTS));
    rep.extra("haystack_pool", json!(HAYSTACKS));
    rep.assumptions = vec![
        "per-atom results come from direct calls of the matcher entry point of the atom's kind on a fresh matcher (their correctness is C01-C05)".into(),
        "the atom's ignore_case/normalize flags are read from its Debug output".into(),
    ];
    rep.finish()
}


/// Replays one case: {"atoms": [texts], "haystack": text, "config": "default"|"match_paths"}.
pub fn replay_case(c: &Value, acc: &mut Acc) {
    let texts: Vec<String> = c["atoms"].as_array().map(|a| a.iter().filter_map(|x| x.as_str().map(|s| s.to_owned())).collect()).unwrap_or_default();
    let atoms: Vec<Atom> = texts.iter().map(|t| Atom::parse(t, CaseMatching::Smart, Normalization::Smart)).collect();
    let cfg = if c["config"].as_str() == Some("match_paths") { Config::DEFAULT.match_paths() } else { Config::DEFAULT };
    if let (Some(p), Some(n), Some(st)) = (c["pattern"].as_str(), c["items"].as_u64(), c["stride"].as_u64()) {
        long_list_case(p, c["config"].as_str().unwrap_or("default"), &cfg, n as usize, st as usize, acc);
        return;
    }
    let Some(h) = c["haystack"].as_str() else {
        // match_list / multi-column cases carry other keys; they are re-judged by a full run
        acc.count("case kinds not replayed individually (match_list, multi-column)", 1);
        return;
    };
    let hay = Utf32String::from(h);
    let table: Vec<AtomAlone> = atoms.iter().map(|a| atom_alone(a, &cfg, hay.slice(..))).collect();
    let list: Vec<usize> = (0..atoms.len()).collect();
    let (want, want_idx) = expected(&list, &table);
    let mut pat = Pattern::default();
    pat.atoms = atoms.clone();
    let mut m = Matcher::new(cfg.clone());
    let got = pat.score(hay.slice(..), &mut m);
    if got != want {
        acc.violation("C15/Pattern::score/replay", "Pattern::score differs from the conjunction of its atoms", || json!({"atoms": texts, "haystack": h, "expected": want, "got": got}));
    }
    let mut idx = vec![9, 9];
    let got_i = pat.indices(hay.slice(..), &mut m, &mut idx);
    if got_i != want || (want.is_some() && idx[2..] != want_idx[..]) || idx[..2] != [9, 9] {
        acc.violation("C15/Pattern::indices/replay", "Pattern::indices differs from the conjunction of its atoms", || json!({"atoms": texts, "haystack": h, "expected": [json!(want), json!(want_idx)], "got": [json!(got_i), json!(idx)]}));
    }
}
