//! Per-case oracles for C01–C05 (matcher crate), evaluated on every case of a bounded domain.

use common::{json, Acc, Value};

use crate::algos::{call_indices, call_match, rep_tag, Algo, ALGOS};
use crate::dom::{Case, Ctx};
use crate::refm::{self, Cfg};

fn case_json(case: &Case<'_>, extra: Value) -> Value {
    let mut v = case.to_json();
    if let (Some(m), Some(e)) = (v.as_object_mut(), extra.as_object()) {
        for (k, x) in e {
            m.insert(k.clone(), x.clone());
        }
    }
    v
}

/// Is `idx` a valid witness (strictly increasing, in range, each char normalises to the needle char)?
pub fn valid_alignment(case: &Case<'_>, idx: &[u32]) -> Result<(), String> {
    let n = case.needle.chars.len();
    if idx.len() != n {
        return Err(format!("appended {} indices for a needle of {}", idx.len(), n));
    }
    for k in 0..n {
        let i = idx[k] as usize;
        if i >= case.hay.chars.len() {
            return Err(format!("index {} outside the haystack", i));
        }
        if k > 0 && idx[k] <= idx[k - 1] {
            return Err("indices not strictly increasing".into());
        }
        if case.view.normed[i] != case.needle.chars[k] {
            return Err(format!(
                "haystack[{}] normalises to {:?}, needle[{}] is {:?}",
                i, case.view.normed[i], k, case.needle.chars[k]
            ));
        }
    }
    Ok(())
}

// ------------------------------------------------------------------------------------------ C01

pub fn c01_case(case: &Case<'_>, ctx: &mut Ctx, acc: &mut Acc) {
    let needle = &case.needle.chars;
    let h = case.hay.chars.len();
    let n = needle.len();
    let expected = refm::is_subsequence(needle, &case.view.normed);
    let all_present = needle.iter().all(|c| case.view.normed.contains(c));
    let nontrivial = (expected && n >= 1 && n < h) || (!expected && all_present && n <= h && n >= 2);
    if nontrivial {
        acc.nontrivial += 1;
    }
    let okey = format!(
        "{}:{}",
        if expected { "match" } else { "reject" },
        if n == 0 {
            "empty"
        } else if n > h {
            "longer"
        } else if n == h {
            "equal"
        } else if n == 1 {
            "one"
        } else {
            "shorter"
        }
    );
    acc.outcome(&okey);
    acc.states += 1;
    let mut decisions = 0u8;
    for &ha in case.hay.reps() {
        for &na in case.needle.reps() {
            let hv = case.hay.view(ha);
            let nv = case.needle.view(na);
            for entry in 0..4 {
                let (name, got) = match entry {
                    0 => ("fuzzy_match", ctx.matcher.fuzzy_match(hv, nv).is_some()),
                    1 => {
                        ctx.idx.clear();
                        (
                            "fuzzy_indices",
                            ctx.matcher.fuzzy_indices(hv, nv, &mut ctx.idx).is_some(),
                        )
                    }
                    2 => (
                        "fuzzy_match_greedy",
                        ctx.matcher.fuzzy_match_greedy(hv, nv).is_some(),
                    ),
                    _ => {
                        ctx.idx.clear();
                        (
                            "fuzzy_indices_greedy",
                            ctx.matcher
                                .fuzzy_indices_greedy(hv, nv, &mut ctx.idx)
                                .is_some(),
                        )
                    }
                };
                acc.transitions += 1;
                decisions |= if got { 1 } else { 2 };
                if got != expected {
                    let sig = format!(
                        "C01/{}/{}/expected_{}",
                        name,
                        rep_tag(ha, na),
                        if expected { "match" } else { "reject" }
                    );
                    acc.violation(
                        &sig,
                        &format!(
                            "{} ({} haystack, {} needle) {} although the needle {} a subsequence of the normalised haystack",
                            name,
                            if ha { "ASCII" } else { "Unicode" },
                            if na { "ASCII" } else { "Unicode" },
                            if got { "matched" } else { "did not match" },
                            if expected { "is" } else { "is not" }
                        ),
                        || case_json(case, json!({"entry": name, "rep": rep_tag(ha, na), "expected_match": expected, "got_match": got})),
                    );
                }
            }
        }
    }
    if decisions == 3 {
        acc.count("cases_with_disagreeing_entry_points", 1);
    }
    if nontrivial {
        acc.sample(|| case_json(case, json!({"expected_match": expected})));
    }
}

// ------------------------------------------------------------------------------------------ C02

const PRIORS: [&[u32]; 3] = [&[], &[7], &[u32::MAX, 0, 3]];

pub fn c02_case(case: &Case<'_>, ctx: &mut Ctx, acc: &mut Acc) {
    let n = case.needle.chars.len();
    let h = case.hay.chars.len();
    acc.states += 1;
    let mut any_some = false;
    for &algo in &ALGOS {
        for &ha in case.hay.reps() {
            for &na in case.needle.reps() {
                let hv = case.hay.view(ha);
                let nv = case.needle.view(na);
                for prior in PRIORS {
                    ctx.idx.clear();
                    ctx.idx.extend_from_slice(prior);
                    let r = call_indices(&mut ctx.matcher, algo, hv, nv, &mut ctx.idx);
                    acc.transitions += 1;
                    let mut err: Option<(String, String)> = None;
                    if ctx.idx.len() < prior.len() || &ctx.idx[..prior.len()] != prior {
                        err = Some(("prior_content_changed".into(), "earlier content of the indices vector was modified".into()));
                    } else {
                        let app = &ctx.idx[prior.len()..];
                        match r {
                            None => {
                                if !app.is_empty() {
                                    err = Some(("appended_on_failure".into(), format!("a failed match appended {} indices", app.len())));
                                }
                            }
                            Some(_) => {
                                any_some = true;
                                if let Err(e) = valid_alignment(case, app) {
                                    let class = if app.len() != n {
                                        "wrong_count"
                                    } else {
                                        "invalid_witness"
                                    };
                                    err = Some((class.into(), e));
                                } else if n > 0 && !algo.is_fuzzy() {
                                    // contiguity
                                    if (1..n).any(|k| app[k] != app[k - 1] + 1) {
                                        err = Some(("not_contiguous".into(), "indices of an anchored/substring match are not contiguous".into()));
                                    } else {
                                        let lead = if case.needle.chars[0].is_whitespace() { 0 } else { refm::leading_ws(&case.hay.chars, ha) };
                                        let trail = if case.needle.chars[n - 1].is_whitespace() { 0 } else { refm::trailing_ws(&case.hay.chars, ha) };
                                        let first = app[0] as usize;
                                        let last = app[n - 1] as usize;
                                        let bad = match algo {
                                            Algo::Prefix => first != lead,
                                            Algo::Postfix => last + 1 + trail != h,
                                            Algo::Exact => first != lead || last + 1 + trail != h,
                                            _ => false,
                                        };
                                        if bad {
                                            err = Some(("not_anchored".into(), format!("indices {:?} are not anchored as {} requires", app, algo.name())));
                                        }
                                    }
                                }
                            }
                        }
                    }
                    if let Some((class, msg)) = err {
                        let sig = format!("C02/{}/{}/{}", algo.name(), rep_tag(ha, na), class);
                        let got = ctx.idx.clone();
                        acc.violation(&sig, &format!("{}_indices: {}", algo.name(), msg), || {
                            case_json(case, json!({"algo": algo.name(), "rep": rep_tag(ha, na), "prior": prior, "result": r, "indices_after": got}))
                        });
                    }
                }
            }
        }
    }
    if any_some && n >= 1 {
        acc.nontrivial += 1;
        acc.sample(|| case.to_json());
    }
    acc.outcome(if any_some { "some" } else { "none" });
}

// ------------------------------------------------------------------------------------------ C03

pub fn c03_case(case: &Case<'_>, ctx: &mut Ctx, acc: &mut Acc) {
    debug_assert!(!case.cfg.prefer_prefix);
    let n = case.needle.chars.len();
    acc.states += 1;
    let mut seen: Vec<(Vec<u32>, u16, &'static str)> = Vec::new();
    let mut any = false;
    for &algo in &ALGOS {
        for &ha in case.hay.reps() {
            for &na in case.needle.reps() {
                let hv = case.hay.view(ha);
                let nv = case.needle.view(na);
                let sm = call_match(&mut ctx.matcher, algo, hv, nv);
                ctx.idx.clear();
                let si = call_indices(&mut ctx.matcher, algo, hv, nv, &mut ctx.idx);
                acc.transitions += 2;
                if sm != si {
                    let sig = format!("C03/{}/{}/match_vs_indices", algo.name(), rep_tag(ha, na));
                    acc.violation(&sig, "score-only and indices variant return different values", || {
                        case_json(case, json!({"algo": algo.name(), "rep": rep_tag(ha, na), "match": sm, "indices": si}))
                    });
                }
                let Some(s) = si else { continue };
                if n == 0 {
                    if s != 0 {
                        acc.violation(&format!("C03/{}/empty_needle_score", algo.name()), "empty needle scored non-zero", || case.to_json());
                    }
                    continue;
                }
                // the scheme is defined on positions: it can be evaluated on whatever alignment
                // is reported as long as it is structurally an alignment (one in-range index per
                // needle character, strictly increasing) - whether the characters there really
                // match is C02's question
                let structural = ctx.idx.len() == n
                    && ctx.idx.iter().all(|&i| (i as usize) < case.hay.chars.len())
                    && ctx.idx.windows(2).all(|w| w[0] < w[1]);
                if !structural {
                    acc.count("skipped_structurally_invalid_alignment(C02)", 1);
                    continue;
                }
                if valid_alignment(case, &ctx.idx).is_err() {
                    acc.count("scored_although_not_a_witness(C02)", 1);
                }
                any = true;
                let want = refm::ref_score(case.view, &ctx.idx).min(65535);
                if want != s as i64 {
                    let gaps = ctx.idx.windows(2).any(|w| w[1] != w[0] + 1);
                    let sig = format!(
                        "C03/{}/{}/score_mismatch/{}",
                        algo.name(),
                        rep_tag(ha, na),
                        if gaps { "gapped" } else { "contiguous" }
                    );
                    let idx = ctx.idx.clone();
                    acc.violation(&sig, "returned score differs from the scoring scheme applied to the reported alignment", || {
                        case_json(case, json!({"algo": algo.name(), "rep": rep_tag(ha, na), "indices": idx, "returned": s, "scheme": want}))
                    });
                }
                if let Some((_, s2, a2)) = seen.iter().find(|(i, _, _)| *i == ctx.idx) {
                    if *s2 != s {
                        let idx = ctx.idx.clone();
                        let a2 = *a2;
                        let s2 = *s2;
                        acc.violation(&format!("C03/same_alignment_different_score/{}", algo.name()), "two algorithms score the same alignment differently", || {
                            case_json(case, json!({"algo": algo.name(), "other": a2, "indices": idx, "score": s, "other_score": s2}))
                        });
                    }
                } else {
                    seen.push((ctx.idx.clone(), s, algo.name()));
                }
            }
        }
    }
    if any {
        acc.nontrivial += 1;
        acc.outcome(&format!("alignments={}", seen.len().min(4)));
        if seen.len() > 1 {
            acc.sample(|| case_json(case, json!({"alignments": seen.iter().map(|(i, s, a)| json!({"algo": a, "indices": i, "score": s})).collect::<Vec<_>>()})));
        }
    } else {
        acc.outcome("no_match");
    }
}

// ------------------------------------------------------------------------------------------ C04

pub fn c04_case(case: &Case<'_>, ctx: &mut Ctx, acc: &mut Acc) {
    debug_assert!(!case.cfg.prefer_prefix);
    let n = case.needle.chars.len();
    acc.states += 1;
    if n == 0 {
        acc.outcome("empty");
        return;
    }
    let brute = refm::brute_max(case.view, &case.needle.chars);
    let naive = refm::naive_recurrence(case.view, &case.needle.chars);
    if brute.is_some() != naive.is_some() {
        common::machinery_failure("reference models disagree on existence of an alignment");
    }
    let on_cfg = Cfg {
        prefer_prefix: true,
        ..case.cfg
    };
    let mut any = false;
    for &ha in case.hay.reps() {
        for &na in case.needle.reps() {
            let hv = case.hay.view(ha);
            let nv = case.needle.view(na);
            ctx.matcher.config = case.cfg.to_config();
            let s_off = ctx.matcher.fuzzy_match(hv, nv);
            ctx.idx.clear();
            let s_off_i = ctx.matcher.fuzzy_indices(hv, nv, &mut ctx.idx);
            ctx.matcher.config = on_cfg.to_config();
            let s_on = ctx.matcher.fuzzy_match(hv, nv);
            ctx.idx2.clear();
            let s_on_i = ctx.matcher.fuzzy_indices(hv, nv, &mut ctx.idx2);
            ctx.matcher.config = case.cfg.to_config();
            acc.transitions += 4;
            let rep = rep_tag(ha, na);
            if s_off != s_off_i || s_on != s_on_i {
                acc.violation(&format!("C04/{rep}/match_vs_indices"), "fuzzy_match and fuzzy_indices return different scores", || {
                    case_json(case, json!({"rep": rep, "off": [s_off, s_off_i], "on": [s_on, s_on_i]}))
                });
            }
            match (s_off, brute) {
                (Some(s), Some(b)) => {
                    any = true;
                    let s = s as i64;
                    let nv_ = naive.unwrap();
                    if s > b {
                        acc.violation(&format!("C04/{rep}/above_true_optimum"), "fuzzy score exceeds the maximum over all alignments", || {
                            case_json(case, json!({"rep": rep, "score": s, "brute_max": b, "naive": nv_}))
                        });
                    }
                    if s < nv_ {
                        acc.violation(&format!("C04/{rep}/below_recurrence"), "fuzzy score is lower than the naive full-matrix recurrence", || {
                            case_json(case, json!({"rep": rep, "score": s, "brute_max": b, "naive": nv_}))
                        });
                    }
                    if n == 1 && s != b {
                        acc.violation(&format!("C04/{rep}/single_char_not_optimal"), "one-character needle does not get the best-placed occurrence", || {
                            case_json(case, json!({"rep": rep, "score": s, "brute_max": b}))
                        });
                    }
                    if s == b {
                        acc.count("equal_to_true_optimum", 1);
                    } else {
                        acc.count("below_true_optimum(heuristic)", 1);
                    }
                    if s == nv_ {
                        acc.count("equal_to_naive_recurrence", 1);
                    } else if s > nv_ {
                        acc.count("above_naive_recurrence", 1);
                    }
                }
                (None, None) => {}
                _ => {
                    acc.count("skipped_decision_mismatch(C01)", 1);
                }
            }
            match (s_off, s_on) {
                (Some(a), Some(b)) => {
                    if b < a {
                        acc.violation(&format!("C04/{rep}/prefix_lowers"), "prefer_prefix lowered a score", || {
                            case_json(case, json!({"rep": rep, "off": a, "on": b}))
                        });
                    } else if b > a + 8 {
                        acc.violation(&format!("C04/{rep}/prefix_raises_too_much"), "prefer_prefix raised a score by more than the prefix bonus", || {
                            case_json(case, json!({"rep": rep, "off": a, "on": b}))
                        });
                    }
                    acc.outcome(&format!("prefix_delta={}", b as i64 - a as i64));
                }
                (None, None) => {}
                _ => {
                    acc.violation(&format!("C04/{rep}/prefix_changes_decision"), "prefer_prefix changed whether the haystack matches", || {
                        case_json(case, json!({"rep": rep, "off": s_off, "on": s_on}))
                    });
                }
            }
        }
    }
    if any {
        acc.nontrivial += 1;
        acc.sample(|| case_json(case, json!({"brute_max": brute, "naive": naive})));
    } else {
        acc.outcome("no_match");
    }
}

// ------------------------------------------------------------------------------------------ C05

pub fn c05_case(case: &Case<'_>, ctx: &mut Ctx, acc: &mut Acc) {
    let n = case.needle.chars.len();
    acc.states += 1;
    if n == 0 {
        acc.outcome("empty");
        return;
    }
    let occ = refm::occurrences(case.view, &case.needle.chars);
    let mut nontrivial = false;
    for algo in [Algo::Substring, Algo::Prefix, Algo::Postfix, Algo::Exact] {
        for &ha in case.hay.reps() {
            let expected_start: Option<usize> = if algo == Algo::Substring {
                // leftmost occurrence with the maximal first-character bonus
                let mut best: Option<(i64, usize)> = None;
                for &s in &occ {
                    let b = case.view.bonus[s];
                    if best.map_or(true, |(bb, _)| b > bb) {
                        best = Some((b, s));
                    }
                }
                best.map(|(_, s)| s)
            } else {
                refm::anchored_expect(algo, &case.hay.chars, case.view, &case.needle.chars, ha)
            };
            if expected_start.is_some() && (algo != Algo::Substring || occ.len() > 1) {
                nontrivial = true;
            }
            for &na in case.needle.reps() {
                let hv = case.hay.view(ha);
                let nv = case.needle.view(na);
                let sm = call_match(&mut ctx.matcher, algo, hv, nv);
                ctx.idx.clear();
                let si = call_indices(&mut ctx.matcher, algo, hv, nv, &mut ctx.idx);
                acc.transitions += 2;
                let rep = rep_tag(ha, na);
                let exp = expected_start.is_some();
                if sm.is_some() != exp || si.is_some() != exp {
                    let sig = format!(
                        "C05/{}/{}/expected_{}",
                        algo.name(),
                        rep,
                        if exp { "match" } else { "reject" }
                    );
                    acc.violation(&sig, &format!("{} decision differs from the documented relation", algo.name()), || {
                        case_json(case, json!({"algo": algo.name(), "rep": rep, "expected_start": expected_start, "occurrences": occ, "match": sm, "indices": si}))
                    });
                    continue;
                }
                if let (Some(es), Some(_)) = (expected_start, si) {
                    if ctx.idx.first().map(|&i| i as usize) != Some(es) {
                        let sig = format!("C05/{}/{}/wrong_occurrence", algo.name(), rep);
                        let idx = ctx.idx.clone();
                        acc.violation(&sig, &format!("{} reports a different occurrence than documented", algo.name()), || {
                            case_json(case, json!({"algo": algo.name(), "rep": rep, "expected_start": es, "occurrences": occ, "indices": idx}))
                        });
                    }
                }
            }
        }
    }
    if nontrivial {
        acc.nontrivial += 1;
        acc.sample(|| case_json(case, json!({"occurrences": occ})));
    }
    acc.outcome(&format!("occ={}", occ.len().min(3)));
}
