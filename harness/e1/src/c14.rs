//! C14 — pattern text is parsed by one grammar regardless of the characters involved.
//! Every string over a marker/escape/space/ASCII/non-ASCII alphabet up to a length bound, through
//! every public constructor, against a reference parser written from the statement.

use common::{json, par_shards, show, threads, Acc, Report, Value};
use nucleo_matcher::chars;
use nucleo_matcher::pattern::{Atom, AtomKind, CaseMatching, Normalization, Pattern};

use crate::dom::{count_strings, decode};

pub const ALPHA: &[char] = &[
    'a', 'A', 'ä', 'Ä', ' ', '\u{3000}', '\\', '!', '^', '\'', '$',
];
/// literal-text alphabet for the round trip (no backslash)
pub const LIT: &[char] = &['a', 'A', 'ä', ' ', '!', '^', '\'', '$'];

/// One non-ASCII representative per signature that the smart-case / smart-normalisation /
/// folding decisions can distinguish: (has a simple case folding, std is_uppercase, std
/// is_lowercase, normalisation changes it, folding gives an ASCII char, is whitespace).
pub fn signature_chars() -> Vec<char> {
    let mut seen: std::collections::BTreeMap<(bool, bool, bool, bool, bool, bool), char> = Default::default();
    for cp in 0x80u32..0x30000 {
        let Some(c) = char::from_u32(cp) else { continue };
        // combining marks and other grapheme extenders would be truncated away (documented)
        if !(c.is_alphanumeric() || c.is_whitespace()) {
            continue;
        }
        use unicode_segmentation::UnicodeSegmentation;
        let s: String = ['a', c, 'a'].iter().collect();
        if s.graphemes(true).count() != 3 {
            continue;
        }
        let sig = (chars::is_upper_case(c), c.is_uppercase(), c.is_lowercase(), chars::normalize(c) != c, chars::to_lower_case(c).is_ascii(), c.is_whitespace());
        seen.entry(sig).or_insert(c);
    }
    seen.into_values().collect()
}

#[derive(Clone, Debug, PartialEq, Eq)]
pub struct RefAtom {
    pub negative: bool,
    pub kind: AtomKind,
    pub needle: Vec<char>,
    pub ignore_case: bool,
    pub normalize: bool,
}

pub fn split_words(text: &[char]) -> Vec<Vec<char>> {
    let mut words = vec![Vec::new()];
    let mut prev_backslash = false;
    for &c in text {
        if c.is_whitespace() && !prev_backslash {
            words.push(Vec::new());
            prev_backslash = false;
            continue;
        }
        prev_backslash = c == '\\';
        words.last_mut().unwrap().push(c);
    }
    words
}

/// `\` + U+0020 becomes a literal space, every other character (including every other
/// backslash) is kept.
pub fn unescape_spaces(text: &[char]) -> Vec<char> {
    let mut out = Vec::with_capacity(text.len());
    let mut i = 0;
    while i < text.len() {
        if text[i] == '\\' && i + 1 < text.len() && text[i + 1] == ' ' {
            out.push(' ');
            i += 2;
        } else {
            out.push(text[i]);
            i += 1;
        }
    }
    out
}

pub fn finish_atom(
    mut needle: Vec<char>,
    case: CaseMatching,
    norm: Normalization,
    kind: AtomKind,
    negative: bool,
) -> RefAtom {
    let ignore_case = match case {
        CaseMatching::Ignore => {
            for c in needle.iter_mut() {
                *c = chars::to_lower_case(*c);
            }
            true
        }
        CaseMatching::Smart => !needle.iter().any(|&c| chars::is_upper_case(c)),
        CaseMatching::Respect => false,
        _ => unreachable!(),
    };
    let normalize = match norm {
        Normalization::Smart => needle.iter().all(|&c| chars::normalize(c) == c),
        Normalization::Never => false,
        _ => unreachable!(),
    };
    RefAtom {
        negative,
        kind,
        needle,
        ignore_case,
        normalize,
    }
}

pub fn ref_atom_new(text: &[char], case: CaseMatching, norm: Normalization, kind: AtomKind, escape: bool) -> RefAtom {
    let needle = if escape {
        unescape_spaces(text)
    } else {
        text.to_vec()
    };
    finish_atom(needle, case, norm, kind, false)
}

pub fn ref_atom_parse(word: &[char], case: CaseMatching, norm: Normalization) -> RefAtom {
    let mut w = word;
    let mut negative = false;
    if w.first() == Some(&'!') {
        negative = true;
        w = &w[1..];
    } else if w.len() >= 2 && w[0] == '\\' && w[1] == '!' {
        w = &w[1..];
    }
    let mut kind = AtomKind::Fuzzy;
    if w.first() == Some(&'^') {
        kind = AtomKind::Prefix;
        w = &w[1..];
    } else if w.first() == Some(&'\'') {
        kind = AtomKind::Substring;
        w = &w[1..];
    } else if w.len() >= 2 && w[0] == '\\' && (w[1] == '^' || w[1] == '\'') {
        w = &w[1..];
    }
    let mut literal_dollar = false;
    if w.len() >= 2 && w[w.len() - 2] == '\\' && w[w.len() - 1] == '$' {
        literal_dollar = true;
        w = &w[..w.len() - 2];
    } else if w.last() == Some(&'$') {
        kind = if kind == AtomKind::Fuzzy {
            AtomKind::Postfix
        } else {
            AtomKind::Exact
        };
        w = &w[..w.len() - 1];
    }
    if negative && kind == AtomKind::Fuzzy {
        kind = AtomKind::Substring;
    }
    let mut needle = unescape_spaces(w);
    if literal_dollar {
        needle.push('$');
    }
    finish_atom(needle, case, norm, kind, negative)
}

pub fn ref_parse(text: &[char], case: CaseMatching, norm: Normalization) -> Vec<RefAtom> {
    split_words(text)
        .iter()
        .map(|w| ref_atom_parse(w, case, norm))
        .filter(|a| !a.needle.is_empty())
        .collect()
}

pub fn ref_new(text: &[char], case: CaseMatching, norm: Normalization, kind: AtomKind) -> Vec<RefAtom> {
    split_words(text)
        .iter()
        .map(|w| ref_atom_new(w, case, norm, kind, true))
        .filter(|a| !a.needle.is_empty())
        .collect()
}

/// Observes a real atom through its public surface plus the derived Debug output (the two
/// flags are private).
pub fn observe(a: &Atom) -> RefAtom {
    let dbg = format!("{a:?}");
    let flag = |name: &str| -> bool {
        let key = format!("{name}: ");
        let pos = dbg.rfind(&key).unwrap_or_else(|| common::machinery_failure("Atom Debug output has no such field"));
        dbg[pos + key.len()..].starts_with("true")
    };
    RefAtom {
        negative: a.negative,
        kind: a.kind,
        needle: a.needle_text().chars().collect(),
        ignore_case: flag("ignore_case"),
        normalize: flag("normalize"),
    }
}

fn atoms_json(v: &[RefAtom]) -> Value {
    Value::Array(
        v.iter()
            .map(|a| json!({"negative": a.negative, "kind": format!("{:?}", a.kind), "needle": show(&a.needle), "ignore_case": a.ignore_case, "normalize": a.normalize}))
            .collect(),
    )
}

fn diff_class(want: &[RefAtom], got: &[RefAtom]) -> &'static str {
    if want.len() != got.len() {
        return "atom_count";
    }
    for (w, g) in want.iter().zip(got) {
        if w.needle != g.needle {
            return "needle_text";
        }
        if w.kind != g.kind || w.negative != g.negative {
            return "kind_or_polarity";
        }
        if w.ignore_case != g.ignore_case {
            return "ignore_case";
        }
        if w.normalize != g.normalize {
            return "normalize";
        }
    }
    "none"
}

fn text_class(text: &[char]) -> &'static str {
    if text.iter().all(|c| c.is_ascii()) {
        "ascii"
    } else {
        "non_ascii"
    }
}

const CASES: [CaseMatching; 3] = [CaseMatching::Smart, CaseMatching::Ignore, CaseMatching::Respect];
const NORMS: [Normalization; 2] = [Normalization::Smart, Normalization::Never];
const KINDS: [AtomKind; 5] = [
    AtomKind::Fuzzy,
    AtomKind::Substring,
    AtomKind::Prefix,
    AtomKind::Postfix,
    AtomKind::Exact,
];

fn check_text(text: &[char], acc: &mut Acc) {
    let s: String = text.iter().collect();
    let nontrivial = text.contains(&'\\') || text.iter().any(|c| "!^'$".contains(*c)) || text.iter().any(|c| !c.is_ascii());
    if nontrivial {
        acc.nontrivial += 1;
    }
    acc.states += 1;
    for case in CASES {
        for norm in NORMS {
            let cfg = format!("{case:?}/{norm:?}");
            // Pattern::parse
            let want = ref_parse(text, case, norm);
            let got: Vec<RefAtom> = Pattern::parse(&s, case, norm).atoms.iter().map(observe).collect();
            acc.transitions += 1;
            if want != got {
                let sig = format!("C14/Pattern::parse/{}/{}", text_class(text), diff_class(&want, &got));
                acc.violation(&sig, "Pattern::parse differs from the reference grammar", || {
                    json!({"text": show(text), "settings": cfg, "expected": atoms_json(&want), "got": atoms_json(&got)})
                });
            }
            acc.outcome(&format!("atoms={}", want.len().min(3)));
            // Atom::parse on the whole text as one word
            let want1 = ref_atom_parse(text, case, norm);
            let got1 = observe(&Atom::parse(&s, case, norm));
            acc.transitions += 1;
            if want1 != got1 {
                let sig = format!("C14/Atom::parse/{}/{}", text_class(text), diff_class(std::slice::from_ref(&want1), std::slice::from_ref(&got1)));
                acc.violation(&sig, "Atom::parse differs from the reference grammar", || {
                    json!({"text": show(text), "settings": cfg, "expected": atoms_json(std::slice::from_ref(&want1)), "got": atoms_json(std::slice::from_ref(&got1))})
                });
            }
            for kind in KINDS {
                let want = ref_new(text, case, norm, kind);
                let got: Vec<RefAtom> = Pattern::new(&s, case, norm, kind).atoms.iter().map(observe).collect();
                acc.transitions += 1;
                if want != got {
                    let sig = format!("C14/Pattern::new/{}/{}", text_class(text), diff_class(&want, &got));
                    acc.violation(&sig, "Pattern::new differs from the reference grammar", || {
                        json!({"text": show(text), "settings": cfg, "kind": format!("{kind:?}"), "expected": atoms_json(&want), "got": atoms_json(&got)})
                    });
                }
                for escape in [true, false] {
                    let want = ref_atom_new(text, case, norm, kind, escape);
                    let got = observe(&Atom::new(&s, case, norm, kind, escape));
                    acc.transitions += 1;
                    if want != got {
                        let sig = format!("C14/Atom::new/{}/{}", text_class(text), diff_class(std::slice::from_ref(&want), std::slice::from_ref(&got)));
                        acc.violation(&sig, "Atom::new differs from the reference grammar", || {
                            json!({"text": show(text), "settings": cfg, "kind": format!("{kind:?}"), "escape_whitespace": escape,
                                   "expected": atoms_json(std::slice::from_ref(&want)), "got": atoms_json(std::slice::from_ref(&got))})
                        });
                    }
                }
            }
        }
    }
    if nontrivial && text.len() >= 3 {
        acc.sample(|| json!({"text": show(text), "atoms": atoms_json(&ref_parse(text, CaseMatching::Smart, Normalization::Smart))}));
    }
}

pub fn escape_literal(text: &[char]) -> Vec<char> {
    let mut out = Vec::new();
    let n = text.len();
    for (i, &c) in text.iter().enumerate() {
        let marker_first = i == 0 && (c == '!' || c == '^' || c == '\'');
        let dollar_last = i + 1 == n && c == '$';
        if c == ' ' || marker_first || dollar_last {
            out.push('\\');
        }
        out.push(c);
    }
    out
}

fn check_roundtrip(text: &[char], acc: &mut Acc) {
    if text.is_empty() {
        return;
    }
    let esc = escape_literal(text);
    let s: String = esc.iter().collect();
    acc.states += 1;
    acc.nontrivial += 1;
    for case in CASES {
        for norm in NORMS {
            let want = finish_atom(text.to_vec(), case, norm, AtomKind::Fuzzy, false);
            let got: Vec<RefAtom> = Pattern::parse(&s, case, norm).atoms.iter().map(observe).collect();
            acc.transitions += 1;
            if got.len() != 1 || got[0] != want {
                let sig = format!("C14/roundtrip/{}/{}", text_class(text), diff_class(std::slice::from_ref(&want), &got));
                acc.violation(&sig, "parsing the escaped form of a literal text does not give one fuzzy atom with that text", || {
                    json!({"literal": show(text), "escaped": show(&esc), "settings": format!("{case:?}/{norm:?}"),
                           "expected": atoms_json(std::slice::from_ref(&want)), "got": atoms_json(&got)})
                });
            }
        }
    }
    if text.len() >= 3 && !text.iter().all(|c| c.is_ascii()) {
        acc.sample(|| json!({"literal": show(text), "escaped": show(&esc)}));
    }
}

fn check_reparse(a: &[char], b: &[char], acc: &mut Acc) {
    let sa: String = a.iter().collect();
    let sb: String = b.iter().collect();
    acc.states += 1;
    for case in CASES {
        for norm in NORMS {
            let mut p = Pattern::parse(&sa, case, norm);
            p.reparse(&sb, case, norm);
            let fresh = Pattern::parse(&sb, case, norm);
            acc.transitions += 2;
            if p.atoms != fresh.atoms {
                acc.violation("C14/reparse_differs_from_fresh_parse", "reparse on a used pattern object differs from a fresh parse", || {
                    json!({"first": show(a), "second": show(b), "settings": format!("{case:?}/{norm:?}"),
                           "reparse": format!("{:?}", p.atoms), "fresh": format!("{:?}", fresh.atoms)})
                });
            }
        }
    }
}

pub fn replay_case(c: &Value, acc: &mut Acc) {
    if c.get("literal").is_some() {
        check_roundtrip(&common::parse_cps(&c["literal"]), acc);
    } else if c.get("first").is_some() {
        check_reparse(&common::parse_cps(&c["first"]), &common::parse_cps(&c["second"]), acc);
    } else {
        check_text(&common::parse_cps(&c["text"]), acc);
    }
}

pub fn run(tier: &str) -> ! {
    let mut rep = Report::new("C14", tier);
    crate::dom::quiet_panics();
    let (max_len, lit_len, pair_len) = if rep.is_thorough() { (7, 6, 3) } else { (5, 5, 2) };
    let total = count_strings(ALPHA.len(), max_len);
    let chunk = 512u64;
    let shards = ((total + chunk - 1) / chunk) as usize;
    let acc = par_shards(shards, threads(), |shard, acc| {
        let mut buf = Vec::new();
        let lo = shard as u64 * chunk;
        for i in lo..(lo + chunk).min(total) {
            decode(i, ALPHA, &mut buf);
            acc.evaluations += 1;
            let r = std::panic::catch_unwind(std::panic::AssertUnwindSafe(|| check_text(&buf, acc)));
            if r.is_err() {
                acc.violation("C14/panic", "a pattern constructor panicked", || json!({"text": show(&buf)}));
            }
        }
    });
    rep.acc.merge(acc);
    // the same checks over an alphabet with one representative per case/normalisation signature
    let mut sig_alpha: Vec<char> = vec!['a', 'A', ' ', '\\', '!', '$'];
    sig_alpha.extend(signature_chars());
    let sig_len = if rep.is_thorough() { 4 } else { 3 };
    let total_sig = count_strings(sig_alpha.len(), sig_len);
    let shards_sig = ((total_sig + chunk - 1) / chunk) as usize;
    let acc = par_shards(shards_sig, threads(), |shard, acc| {
        let mut buf = Vec::new();
        let lo = shard as u64 * chunk;
        for i in lo..(lo + chunk).min(total_sig) {
            decode(i, &sig_alpha, &mut buf);
            acc.evaluations += 1;
            let r = std::panic::catch_unwind(std::panic::AssertUnwindSafe(|| check_text(&buf, acc)));
            if r.is_err() {
                acc.violation("C14/panic", "a pattern constructor panicked", || json!({"text": show(&buf)}));
            }
        }
    });
    rep.acc.merge(acc);
    rep.extra("signature_alphabet", show(&sig_alpha));
    // multi-code-point grapheme clusters: every constructor must treat a text exactly like the same
    // text with every cluster cut down to its first code point (the documented reduction), whatever
    // branch (ASCII / non-ASCII, escapes on / off) the text takes
    {
        let tokens: Vec<&str> = vec!["a", "B", "é", " ", "\\", "$", "^", "!", "'", "e\u{301}", "\u{915}\u{93e}", "\u{1f469}\u{200d}\u{1f469}", "\u{1f1e9}\u{1f1ea}", "\u{1100}\u{1161}", "o\u{308}\u{301}"];
        let len = if rep.is_thorough() { 4 } else { 3 };
        let total_c = count_strings(tokens.len(), len);
        let shards_c = ((total_c + chunk - 1) / chunk) as usize;
        let idx_alpha: Vec<char> = (0..tokens.len() as u32).map(|i| char::from_u32(0x41 + i).unwrap()).collect();
        // compared through their Debug form: negation, kind, needle text, case and normalisation flags
        // (the ASCII and the code-point representation of the same needle text are the same atom)
        fn dbg<T: std::fmt::Debug>(t: &T) -> String {
            format!("{t:?}")
        }
        let acc = par_shards(shards_c, threads(), |shard, acc| {
            use unicode_segmentation::UnicodeSegmentation;
            let mut buf = Vec::new();
            let lo = shard as u64 * chunk;
            for i in lo..(lo + chunk).min(total_c) {
                decode(i, &idx_alpha, &mut buf);
                let text: String = buf.iter().map(|c| tokens[(*c as u32 - 0x41) as usize]).collect();
                let reduced: String = text.graphemes(true).map(|g| if g == "\r\n" { '\n' } else { g.chars().next().unwrap() }).collect();
                if reduced == text {
                    continue;
                }
                // the reduced text must itself consist of single-code-point clusters (two regional
                // indicators or two leading jamo left over from two clusters would cluster again)
                if reduced.graphemes(true).any(|g| g.chars().count() > 1) {
                    continue;
                }
                acc.count("cluster_texts", 1);
                acc.states += 1;
                acc.nontrivial += 1;
                let r = std::panic::catch_unwind(std::panic::AssertUnwindSafe(|| {
                    let mut bad: Vec<&'static str> = Vec::new();
                    for case in [CaseMatching::Smart, CaseMatching::Ignore, CaseMatching::Respect] {
                        for norm in [Normalization::Smart, Normalization::Never] {
                            if dbg(&Pattern::parse(&text, case, norm).atoms) != dbg(&Pattern::parse(&reduced, case, norm).atoms) {
                                bad.push("Pattern::parse");
                            }
                            if dbg(&Pattern::new(&text, case, norm, AtomKind::Fuzzy).atoms) != dbg(&Pattern::new(&reduced, case, norm, AtomKind::Fuzzy).atoms) {
                                bad.push("Pattern::new");
                            }
                            let mut p1 = Pattern::parse("x", case, norm);
                            p1.reparse(&text, case, norm);
                            let mut p2 = Pattern::parse("x", case, norm);
                            p2.reparse(&reduced, case, norm);
                            if dbg(&p1.atoms) != dbg(&p2.atoms) {
                                bad.push("Pattern::reparse");
                            }
                            if !text.contains(' ') {
                                if dbg(&Atom::parse(&text, case, norm)) != dbg(&Atom::parse(&reduced, case, norm)) {
                                    bad.push("Atom::parse");
                                }
                                for esc in [true, false] {
                                    if dbg(&Atom::new(&text, case, norm, AtomKind::Substring, esc)) != dbg(&Atom::new(&reduced, case, norm, AtomKind::Substring, esc)) {
                                        bad.push(if esc { "Atom::new(escape_whitespace)" } else { "Atom::new" });
                                    }
                                }
                            }
                        }
                    }
                    bad.sort();
                    bad.dedup();
                    bad
                }));
                acc.transitions += 30;
                match r {
                    Ok(bad) => {
                        for b in bad {
                            acc.violation(&format!("C14/{b}/cluster_tail_kept"), "a text with multi-code-point grapheme clusters is not parsed like the same text reduced to the first code point of every cluster", || {
                                json!({"text": show(&text.chars().collect::<Vec<_>>()), "reduced": show(&reduced.chars().collect::<Vec<_>>()), "constructor": b})
                            });
                        }
                    }
                    Err(_) => acc.violation("C14/panic", "a pattern constructor panicked", || json!({"text": show(&text.chars().collect::<Vec<_>>())})),
                }
            }
        });
        rep.acc.merge(acc);
    }
    let total_lit = count_strings(LIT.len(), lit_len);
    let shards = ((total_lit + chunk - 1) / chunk) as usize;
    let acc = par_shards(shards, threads(), |shard, acc| {
        let mut buf = Vec::new();
        let lo = shard as u64 * chunk;
        for i in lo..(lo + chunk).min(total_lit) {
            decode(i, LIT, &mut buf);
            acc.evaluations += 1;
            let r = std::panic::catch_unwind(std::panic::AssertUnwindSafe(|| check_roundtrip(&buf, acc)));
            if r.is_err() {
                acc.violation("C14/panic", "a pattern constructor panicked", || json!({"literal": show(&buf)}));
            }
        }
    });
    rep.acc.merge(acc);
    let npair = count_strings(ALPHA.len(), pair_len);
    let acc = par_shards(npair as usize, threads(), |i, acc| {
        let mut a = Vec::new();
        let mut b = Vec::new();
        decode(i as u64, ALPHA, &mut a);
        for j in 0..npair {
            decode(j, ALPHA, &mut b);
            acc.evaluations += 1;
            check_reparse(&a, &b, acc);
        }
    });
    rep.acc.merge(acc);
    let expect = total + total_sig + total_lit + npair * npair;
    rep.exhaustive = rep.acc.evaluations == expect;
    if !rep.exhaustive {
        rep.caps.push(format!("{} of {} cases", rep.acc.evaluations, expect));
    }
    rep.acc.traces = rep.acc.transitions;
    rep.bound = format!(
        "all strings of length <= {max_len} over 11 symbols x 3 CaseMatching x 2 Normalization through parse/new/Atom::parse/Atom::new; literal round trip length <= {lit_len} over 8 symbols; reparse on all ordered pairs of strings of length <= {pair_len}"
    );
    rep.rule = "complete enumeration of strings over {a A ä Ä SPACE U+3000 \\ ! ^ ' $}; non-trivial = contains a marker, a backslash or a non-ASCII character".into();
    rep.extra("alphabet", show(ALPHA));
    rep.assumptions = vec![
        "the two private flags of an atom are read from its derived Debug output".into(),
        "upper case = has a simple case folding (chars::is_upper_case), normalised = chars::normalize(c) != c; their correctness is C16".into(),
        "in the main enumeration combining marks are outside the alphabet (needles are documented to be truncated to the first code point of each grapheme); the cluster family checks that reduction itself against unicode-segmentation".into(),
        "where the statement is silent (quote prefix combined with a dollar suffix gives Exact; a doubled backslash before a space still escapes it) the reference follows the behaviour on ASCII text, so the check demands one grammar, not a particular one".into(),
    ];
    rep.finish()
}
