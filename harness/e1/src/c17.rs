//! C17 — string conversion keeps the documented grapheme guarantees.
//! Every string over a grapheme-relevant alphabet up to a length bound, every constructor, every
//! slice range, against unicode-segmentation (the definition of "extended grapheme cluster").

use std::borrow::Cow;

use common::{json, par_shards, show, threads, Acc, Report, Value};
use nucleo_matcher::{Utf32Str, Utf32String};
use unicode_segmentation::UnicodeSegmentation;

use crate::dom::{count_strings, decode};

pub const ALPHA: &[char] = &[
    'a', '\r', '\n', ' ', 'é', '\u{0308}', '\u{200D}', '\u{1F469}', '\u{1F1E6}', '\u{1100}',
    '\u{1161}', '\u{0600}',
];

fn content(s: Utf32Str<'_>) -> (bool, Vec<char>) {
    match s {
        Utf32Str::Ascii(b) => (true, b.iter().map(|&b| b as char).collect()),
        Utf32Str::Unicode(c) => (false, c.to_vec()),
    }
}

fn check_view(
    name: &str,
    v: Utf32Str<'_>,
    want_ascii: bool,
    want: &[char],
    text: &[char],
    acc: &mut Acc,
) {
    acc.transitions += 1;
    let mut fail = |class: &str, what: String| {
        acc.violation(&format!("C17/{name}/{class}"), &what, || {
            json!({"string": show(text), "constructor": name, "expected_ascii": want_ascii, "expected": show(want)})
        });
    };
    let (is_ascii, got) = content(v);
    if is_ascii != want_ascii || v.is_ascii() != want_ascii {
        fail("representation", format!("{name}: wrong representation (ascii={is_ascii}, expected {want_ascii})"));
        return;
    }
    if got != want {
        fail("content", format!("{name}: content differs from one-char-per-grapheme"));
        return;
    }
    if v.len() != want.len() || v.is_empty() != want.is_empty() {
        fail("len", format!("{name}: len/is_empty wrong"));
    }
    for (i, &c) in want.iter().enumerate() {
        if v.get(i as u32) != c {
            fail("get", format!("{name}: get({i}) wrong"));
        }
    }
    if !v.chars().eq(want.iter().copied()) || !v.chars().rev().eq(want.iter().rev().copied()) {
        fail("chars", format!("{name}: chars() iteration wrong"));
    }
    // mixed consumption from both ends
    for front in 0..=want.len().min(3) {
        for back in 0..=(want.len() - front).min(3) {
            let mut it = v.chars();
            let mut ok = true;
            for k in 0..front {
                ok &= it.next() == Some(want[k]);
            }
            for k in 0..back {
                ok &= it.next_back() == Some(want[want.len() - 1 - k]);
            }
            let rest = want.len() - front - back;
            // (the iterator does not promise an exact size_hint; a lower bound above the truth
            // or an upper bound below it would be wrong for any iterator)
            let (lo, hi) = it.size_hint();
            ok &= lo <= rest && hi.map_or(true, |h| h >= rest);
            let mid: Vec<char> = it.collect();
            ok &= mid == want[front..want.len() - back];
            if !ok {
                fail("chars", format!("{name}: chars() after {front} next() and {back} next_back() calls is wrong"));
            }
        }
    }
    let disp = v.to_string();
    if disp != want.iter().collect::<String>() {
        fail("display", format!("{name}: Display wrong"));
    }
    // every slice range
    let n = want.len();
    for i in 0..=n {
        for j in i..=n {
            let w = &want[i..j];
            let mut views: Vec<(&str, Utf32Str<'_>)> = vec![
                ("slice(i..j)", v.slice(i..j)),
                ("slice_u32(i..j)", v.slice_u32(i as u32..j as u32)),
            ];
            if j > i {
                views.push(("slice(i..=j-1)", v.slice(i..=j - 1)));
                views.push(("slice_u32(i..=j-1)", v.slice_u32(i as u32..=(j - 1) as u32)));
            }
            if j == n {
                views.push(("slice(i..)", v.slice(i..)));
                views.push(("slice_u32(i..)", v.slice_u32(i as u32..)));
            }
            if i == 0 {
                views.push(("slice(..j)", v.slice(..j)));
                views.push(("slice_u32(..j)", v.slice_u32(..j as u32)));
            }
            for (rn, sv) in views {
                let (a, g) = content(sv);
                if a != want_ascii || g != w {
                    fail("slice", format!("{name}: {rn} with i={i} j={j} wrong"));
                }
            }
        }
    }
    if content(v.slice(..)).1 != want {
        fail("slice", format!("{name}: slice(..) wrong"));
    }
    // every combination of bound kinds (tuples of Bound reach arms no range syntax produces)
    use std::ops::Bound;
    for i in 0..=n {
        for j in i..=n {
            for sk in 0..3 {
                for ek in 0..3 {
                    // (start kind, end kind): 0 Included, 1 Excluded, 2 Unbounded; skip unrepresentable ones
                    let sb: Bound<usize> = match sk {
                        0 => Bound::Included(i),
                        1 => {
                            if i == 0 {
                                continue;
                            }
                            Bound::Excluded(i - 1)
                        }
                        _ => {
                            if i != 0 {
                                continue;
                            }
                            Bound::Unbounded
                        }
                    };
                    let eb: Bound<usize> = match ek {
                        0 => {
                            if j == 0 {
                                continue;
                            }
                            Bound::Included(j - 1)
                        }
                        1 => Bound::Excluded(j),
                        _ => {
                            if j != n {
                                continue;
                            }
                            Bound::Unbounded
                        }
                    };
                    if matches!(eb, Bound::Included(_)) && j <= i {
                        continue;
                    }
                    let sb32: Bound<u32> = match sb { Bound::Included(x) => Bound::Included(x as u32), Bound::Excluded(x) => Bound::Excluded(x as u32), Bound::Unbounded => Bound::Unbounded };
                    let eb32: Bound<u32> = match eb { Bound::Included(x) => Bound::Included(x as u32), Bound::Excluded(x) => Bound::Excluded(x as u32), Bound::Unbounded => Bound::Unbounded };
                    let w = &want[i..j];
                    for (rn, sv) in [("slice((Bound,Bound))", v.slice((sb, eb))), ("slice_u32((Bound,Bound))", v.slice_u32((sb32, eb32)))] {
                        let (a, g) = content(sv);
                        if a != want_ascii || g != w {
                            fail("slice_bounds", format!("{name}: {rn} with start kind {sk} end kind {ek} i={i} j={j} wrong"));
                        }
                    }
                }
            }
        }
    }
}

fn check_owned(name: &str, o: &Utf32String, want_ascii: bool, want: &[char], text: &[char], acc: &mut Acc) {
    check_view(name, o.slice(..), want_ascii, want, text, acc);
    let mut fail = |class: &str, what: String| {
        acc.violation(&format!("C17/{name}/{class}"), &what, || {
            json!({"string": show(text), "constructor": name, "expected_ascii": want_ascii, "expected": show(want)})
        });
    };
    if o.len() != want.len() || o.is_empty() != want.is_empty() {
        fail("len", format!("{name}: owned len/is_empty wrong"));
    }
    if o.to_string() != want.iter().collect::<String>() {
        fail("display", format!("{name}: owned Display wrong"));
    }
    let n = want.len();
    for i in 0..=n {
        for j in i..=n {
            let w = &want[i..j];
            let mut views: Vec<Utf32Str<'_>> = vec![o.slice(i..j), o.slice_u32(i as u32..j as u32)];
            if j > i {
                views.push(o.slice(i..=j - 1));
                views.push(o.slice_u32(i as u32..=(j - 1) as u32));
            }
            if j == n {
                views.push(o.slice(i..));
                views.push(o.slice_u32(i as u32..));
            }
            if i == 0 {
                views.push(o.slice(..j));
                views.push(o.slice_u32(..j as u32));
            }
            for sv in views {
                let (a, g) = content(sv);
                if a != want_ascii || g != w {
                    fail("slice", format!("{name}: owned slice with i={i} j={j} wrong"));
                }
            }
            // tuples of Bound: excluded starts and every end kind
            use std::ops::Bound;
            if i > 0 {
                let mut bviews: Vec<Utf32Str<'_>> = vec![o.slice((Bound::Excluded(i - 1), Bound::Excluded(j))), o.slice_u32((Bound::Excluded(i as u32 - 1), Bound::Excluded(j as u32)))];
                if j > i {
                    bviews.push(o.slice((Bound::Excluded(i - 1), Bound::Included(j - 1))));
                    bviews.push(o.slice_u32((Bound::Excluded(i as u32 - 1), Bound::Included(j as u32 - 1))));
                }
                if j == n {
                    bviews.push(o.slice((Bound::Excluded(i - 1), Bound::Unbounded)));
                    bviews.push(o.slice_u32((Bound::Excluded(i as u32 - 1), Bound::Unbounded)));
                }
                for sv in bviews {
                    let (a, g) = content(sv);
                    if a != want_ascii || g != w {
                        fail("slice_bounds", format!("{name}: owned slice with an excluded start bound i={i} j={j} wrong"));
                    }
                }
            }
        }
    }
}

pub fn check_string(text: &[char], acc: &mut Acc) {
    let s: String = text.iter().collect();
    acc.states += 1;
    let want: Vec<char> = s
        .graphemes(true)
        .map(|g| if g == "\r\n" { '\n' } else { g.chars().next().unwrap() })
        .collect();
    let want_ascii = s.is_ascii() && !s.contains("\r\n");
    let multi = want.len() != text.len();
    if multi || !s.is_ascii() || s.contains('\r') {
        acc.nontrivial += 1;
    }
    acc.outcome(&format!(
        "{}{}",
        if want_ascii { "ascii" } else { "unicode" },
        if multi { "+clusters" } else { "" }
    ));
    let mut clean = Vec::new();
    check_view("Utf32Str::new(clean buffer)", Utf32Str::new(&s, &mut clean), want_ascii, &want, text, acc);
    let mut dirty = vec!['z'; 7];
    check_view("Utf32Str::new(dirty buffer)", Utf32Str::new(&s, &mut dirty), want_ascii, &want, text, acc);
    let owned: Vec<(&str, Utf32String)> = vec![
        ("From<&str>", Utf32String::from(s.as_str())),
        ("From<String>", Utf32String::from(s.clone())),
        ("From<Box<str>>", Utf32String::from(s.clone().into_boxed_str())),
        ("From<Cow::Borrowed>", Utf32String::from(Cow::Borrowed(s.as_str()))),
        ("From<Cow::Owned>", Utf32String::from(Cow::<str>::Owned(s.clone()))),
    ];
    for (name, o) in &owned {
        check_owned(name, o, want_ascii, &want, text, acc);
    }
    for (name, o) in &owned[1..] {
        if *o != owned[0].1 {
            acc.violation(&format!("C17/{name}/constructors_disagree"), "two constructors produce different strings", || json!({"string": show(text)}));
        }
    }
    if multi && text.len() >= 3 {
        acc.sample(|| json!({"string": show(text), "converted": show(&want), "ascii_form": want_ascii}));
    }
}

pub fn replay_case(c: &Value, acc: &mut Acc) {
    check_string(&common::parse_cps(&c["string"]), acc);
}

pub fn run(tier: &str) -> ! {
    let mut rep = Report::new("C17", tier);
    crate::dom::quiet_panics();
    let max_len = if rep.is_thorough() { 7 } else { 5 };
    let total = count_strings(ALPHA.len(), max_len);
    let chunk = 256u64;
    let shards = ((total + chunk - 1) / chunk) as usize;
    let acc = par_shards(shards, threads(), |shard, acc| {
        let mut buf = Vec::new();
        let lo = shard as u64 * chunk;
        for i in lo..(lo + chunk).min(total) {
            decode(i, ALPHA, &mut buf);
            acc.evaluations += 1;
            let r = std::panic::catch_unwind(std::panic::AssertUnwindSafe(|| check_string(&buf, acc)));
            if r.is_err() {
                acc.violation("C17/panic", "a conversion or accessor panicked", || json!({"string": show(&buf)}));
            }
        }
    });
    rep.acc.merge(acc);
    rep.exhaustive = rep.acc.evaluations == total;
    if !rep.exhaustive {
        rep.caps.push(format!("{} of {} strings", rep.acc.evaluations, total));
    }
    rep.acc.traces = rep.acc.transitions;
    rep.bound = format!("all strings of <= {max_len} code points over 12 symbols x 7 constructors x every slice range");
    rep.rule = "complete enumeration over {a CR LF SPACE é U+0308 ZWJ U+1F469 U+1F1E6 U+1100 U+1161 U+0600}; non-trivial = contains CR, a non-ASCII character or a multi-code-point cluster".into();
    rep.extra("alphabet", show(ALPHA));
    rep.assumptions = vec!["unicode-segmentation's graphemes(true) is the definition of extended grapheme cluster (trusted base)".into()];
    rep.finish()
}
