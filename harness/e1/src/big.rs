//! Structured families of large inputs: shapes on both sides of every guard of the matrix
//! allocation, and long needles whose scores approach and exceed the u16 range. These sweeps are
//! exhaustive in the *shape* dimensions (lengths), not in content.

use crate::refm::Cfg;

pub struct BigCase {
    pub family: &'static str,
    pub cfg: Cfg,
    pub hay: Vec<char>,
    pub needle: Vec<char>,
}

const WORD: &[char] = &['a', 'b', '-', 'A', 'b', '1', ' ', 'c', '/', 'b', 'a', '_'];

fn periodic(len: usize) -> Vec<char> {
    (0..len).map(|i| WORD[i % WORD.len()]).collect()
}

fn cfg(ignore_case: bool, paths: bool) -> Cfg {
    Cfg {
        ignore_case,
        normalize: true,
        paths,
        prefer_prefix: false,
    }
}

/// needle = normal form of hay at `n` evenly spaced positions (so it is a subsequence)
fn pick(hay: &[char], n: usize, c: Cfg) -> Vec<char> {
    let h = hay.len();
    (0..n)
        .map(|k| crate::refm::norm(hay[k * h / n.max(1)], c))
        .collect()
}

pub fn shape_grid(thorough: bool) -> Vec<(usize, usize)> {
    let mut v = vec![
        (1024, 100),
        (1025, 100),
        (1024, 101),
        (320, 320),
        (321, 320),
        (320, 319),
        (512, 200),
        (513, 200),
        (2048, 50),
        (2049, 50),
        (2047, 50),
        (51200, 2),
        (51201, 2),
        (65534, 2),
        (65535, 2),
        (65536, 2),
        (65537, 3),
        (70000, 2),
        (70000, 1),
        (2049, 2047),
        (2049, 2048),
        (2050, 2049),
        (4100, 2048),
        (4100, 2049),
        (16000, 6),
        (17000, 6),
        (12000, 8),
        (13000, 8),
        (100, 99),
        (100, 100),
        (100, 101),
        (1, 1),
        (2, 1),
    ];
    if thorough {
        for h in [300, 700, 1500, 3000, 6000, 9000, 11000, 14000, 15000, 33000] {
            for n in [2, 3, 7, 9, 10, 11, 30, 34, 35, 68, 69, 150, 299] {
                if n <= h {
                    v.push((h, n));
                }
            }
        }
    }
    v
}

pub fn needle_lengths(thorough: bool) -> Vec<usize> {
    let mut v: Vec<usize> = Vec::new();
    if thorough {
        v.extend(1..=6000);
    } else {
        v.extend((1..=6000).step_by(149));
        v.extend(2500..=2560);
        v.extend(2720..=2740);
        v.extend([4095, 4096, 4097, 5999, 6000]);
    }
    v.sort();
    v.dedup();
    v
}

pub fn big_cases(thorough: bool) -> Vec<BigCase> {
    let mut out = Vec::new();
    for (h, n) in shape_grid(thorough) {
        for c in [cfg(true, false), cfg(false, true)] {
            let body = periodic(h);
            if n <= h {
                // plain
                let needle = pick(&body, n, c);
                out.push(BigCase { family: "shape-grid/match", cfg: c, hay: body.clone(), needle: needle.clone() });
                // window trimmed by the prefilter: padding that cannot match
                let mut padded = vec!['x'; 40];
                padded.extend_from_slice(&body);
                padded.extend(std::iter::repeat('y').take(40));
                out.push(BigCase { family: "shape-grid/padded", cfg: c, hay: padded, needle: needle.clone() });
                // one absent character
                let mut absent = needle.clone();
                let mid = absent.len() / 2;
                absent[mid] = 'z';
                out.push(BigCase { family: "shape-grid/absent-char", cfg: c, hay: body.clone(), needle: absent });
                // wrong order at the end: last two needle characters cannot both follow
                if n >= 2 {
                    let mut tail = needle.clone();
                    tail.push(crate::refm::norm(body[0], c));
                    tail.remove(0);
                    // needle ends with characters of the start; still usually a subsequence, keep as is
                    out.push(BigCase { family: "shape-grid/rotated", cfg: c, hay: body.clone(), needle: tail });
                }
            } else {
                out.push(BigCase { family: "shape-grid/needle-longer", cfg: c, hay: body.clone(), needle: periodic(n) });
            }
        }
    }
    // matches that start late in a long haystack, with and without prefix preference (the
    // prefix bonus is computed from the start offset)
    for k in [0usize, 1, 2, 7, 100, 5000, 21843, 21844, 21845, 21846, 21847, 21848, 30000, 43690, 43691, 65533, 65534, 65535, 65536, 65537, 70000] {
        for prefer_prefix in [false, true] {
            let c = Cfg { ignore_case: true, normalize: true, paths: false, prefer_prefix };
            let mut hay: Vec<char> = vec!['x'; k];
            hay.extend(['a', 'b', 'y', 'y']);
            out.push(BigCase { family: "late-start/ab", cfg: c, hay: hay.clone(), needle: vec!['a', 'b'] });
            out.push(BigCase { family: "late-start/a", cfg: c, hay: hay.clone(), needle: vec!['a'] });
            out.push(BigCase { family: "late-start/a-y", cfg: c, hay, needle: vec!['a', 'y', 'y'] });
        }
    }
    // long gaps: the running score is floored at zero inside the gap (after 14..35 skipped
    // characters depending on the bonus before it), which is where "open a gap" and "extend the
    // gap" tie in the optimal matcher
    for g in 0..=(if thorough { 120 } else { 70 }) {
        for c in [cfg(true, false), cfg(false, true)] {
            let xs: Vec<char> = vec!['x'; g];
            let mk = |parts: &[&[char]]| -> Vec<char> { parts.iter().flat_map(|p| p.iter().copied()).collect() };
            let ab: Vec<char> = vec!['a', 'b'];
            let abc: Vec<char> = vec!['a', 'b', 'c'];
            out.push(BigCase { family: "long-gap/a-b", cfg: c, hay: mk(&[&['a'], &xs, &['b']]), needle: ab.clone() });
            out.push(BigCase { family: "long-gap/xa-b", cfg: c, hay: mk(&[&['x', 'a'], &xs, &['b']]), needle: ab.clone() });
            out.push(BigCase { family: "long-gap/ a-b", cfg: c, hay: mk(&[&[' ', 'a'], &xs, &['b'], &['x']]), needle: ab.clone() });
            out.push(BigCase { family: "long-gap/a-b-c", cfg: c, hay: mk(&[&['x', 'a'], &xs, &['b'], &xs, &['c']]), needle: abc.clone() });
            out.push(BigCase { family: "long-gap/ab-c", cfg: c, hay: mk(&[&['a', 'b'], &xs, &['c', 'x']]), needle: abc.clone() });
            out.push(BigCase { family: "long-gap/a-bc", cfg: c, hay: mk(&[&['/', 'a'], &xs, &['b', 'c']]), needle: abc.clone() });
        }
    }
    // needles with repeated characters around one occurrence in a long haystack: the needle is a
    // non-subsequence only because of the repetition; beyond the matrix limit the greedy fallback
    // decides. ASCII and non-ASCII filler, occurrence at the start, the end, and split around the filler.
    for k in [0usize, 1, 10, 1000, 34000, 34131, 34132, 34133, 34134, 40000, 51199, 51200, 51300, 70000] {
        for filler in ['x', '界'] {
            let c = cfg(true, false);
            let fill: Vec<char> = vec![filler; k];
            let mk = |parts: &[&[char]]| -> Vec<char> { parts.iter().flat_map(|p| p.iter().copied()).collect() };
            let hays = [mk(&[&['a'], &fill, &['b']]), mk(&[&fill, &['a', 'b']]), mk(&[&['a', 'b'], &fill]), mk(&[&['a'], &fill, &['a'], &fill, &['b']])];
            for hay in hays {
                for needle in [&['a', 'a', 'b'][..], &['a', 'b', 'b'], &['a', 'a'], &['a', 'b'], &['a', 'b', 'a'], &['b', 'a'], &['a', 'a', 'a', 'b'], &['b', 'b']] {
                    out.push(BigCase { family: "repeated-needle-chars", cfg: c, hay: hay.clone(), needle: needle.to_vec() });
                }
            }
        }
    }
    // every ASCII character as a needle character next to a fixed companion, against the
    // character itself and its case partner (c ^ 0x20) in three haystack layouts: a shortcut that
    // treats one particular character specially (a range bound, a table edge) shows here
    for code in 0u8..128 {
        let ch = code as char;
        let partners: Vec<char> = if (code ^ 0x20) < 128 { vec![ch, (code ^ 0x20) as char] } else { vec![ch] };
        for p in partners {
            for q in ['q', '1'] {
                for ic in [true, false] {
                    let c = cfg(ic, false);
                    // a legal needle consists of normal forms only (upper-case letters are not
                    // legal needle characters when case is ignored)
                    if crate::refm::norm(ch, c) != ch {
                        continue;
                    }
                    let hays: [Vec<char>; 4] = [vec![p, '-', q], vec!['-', p, q, '-'], vec![q, '-', p], vec![q, p, q, p, '.']];
                    for hay in hays {
                        for needle in [vec![ch, q], vec![q, ch], vec![ch, ch]] {
                            out.push(BigCase { family: "ascii-sweep", cfg: c, hay: hay.clone(), needle });
                        }
                    }
                }
            }
        }
    }
    // scores that saturate the 16-bit range together with the prefix preference: a run of n equal
    // characters starting at offset 0..=7 (the prefix bonus is positive for small offsets only)
    for n in [2300usize, 2400, 2500, 2560, 2600, 2740, 3300, 4096, 4200, 6000] {
        for k in 0..=7usize {
            for paths in [false, true] {
                let c = Cfg { ignore_case: false, normalize: true, paths, prefer_prefix: true };
                let mut hay: Vec<char> = vec![' '; k];
                hay.extend(std::iter::repeat('a').take(n));
                out.push(BigCase { family: "long-needle/prefix-offset", cfg: c, hay: hay.clone(), needle: vec!['a'; n] });
                hay.push('b');
                out.push(BigCase { family: "long-needle/prefix-offset-tail", cfg: c, hay, needle: vec!['a'; n] });
            }
        }
    }
    for n in needle_lengths(thorough) {
        let c = cfg(false, false);
        let run: Vec<char> = vec!['a'; n];
        // n == h (exact path)
        out.push(BigCase { family: "long-needle/equal", cfg: c, hay: run.clone(), needle: run.clone() });
        // n == h-1, contiguous at the start / at the end
        let mut h1 = run.clone();
        h1.push('b');
        out.push(BigCase { family: "long-needle/prefix-run", cfg: c, hay: h1, needle: run.clone() });
        let mut h2 = vec!['b'];
        h2.extend_from_slice(&run);
        out.push(BigCase { family: "long-needle/suffix-run", cfg: c, hay: h2, needle: run.clone() });
        // gapped: every needle character after a non-word character
        let mut h3 = Vec::with_capacity(2 * n);
        for _ in 0..n {
            h3.push('-');
            h3.push('a');
        }
        out.push(BigCase { family: "long-needle/gapped", cfg: c, hay: h3, needle: run.clone() });
    }
    out
}
