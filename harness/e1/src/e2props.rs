//! Monitors evaluated on the serialised event log / snapshot copies of one execution.
//! Every monitor belongs to one property; all monitors run in every execution and the caller
//! keeps the violations of the property it is checking (and counts the others).

use std::collections::BTreeSet;

use crate::e2::{Obs, RunResult, Scenario, SnapCopy, Uni};
use crate::sched::{Outcome, T_U, T_WORKER0};

pub struct Viol {
    pub prop: &'static str,
    pub sig: String,
    pub what: String,
}

fn v(out: &mut Vec<Viol>, prop: &'static str, sig: &str, what: String) {
    out.push(Viol {
        prop,
        sig: format!("{prop}/{sig}"),
        what,
    });
}

/// reference order: score desc, total column length asc, index asc
fn order_ref(mut items: Vec<(u32, &Uni)>) -> Vec<(u32, u32)> {
    // boring selection sort
    let mut out = Vec::new();
    while !items.is_empty() {
        let mut best = 0;
        for i in 1..items.len() {
            let (s, u) = (items[i].0, items[i].1);
            let (bs, bu) = (items[best].0, items[best].1);
            let better = if s != bs {
                s > bs
            } else if u.len != bu.len {
                u.len < bu.len
            } else {
                u.idx < bu.idx
            };
            if better {
                best = i;
            }
        }
        let (s, u) = items.remove(best);
        out.push((s, u.idx));
    }
    out
}

fn check_snapshot_c06(s: &SnapCopy, when: &str, out: &mut Vec<Viol>) {
    // (1) every match refers to a published item of the snapshot's stream
    for (k, it) in s.items.iter().enumerate() {
        if it.is_none() {
            v(out, "C06", "match_not_initialised", format!("{when}: match #{k} (index {}) refers to an item that is not published", s.matches[k].1));
            return;
        }
    }
    // (2) no item twice
    let set: BTreeSet<u32> = s.matches.iter().map(|m| m.1).collect();
    if set.len() != s.matches.len() {
        v(out, "C06", "duplicate_match", format!("{when}: an item appears twice in the matches {:?}", s.matches));
    }
    // (3) scores, (4) exactness
    let mut non_matching_published = 0;
    for u in &s.universe {
        if u.ref_score.is_none() {
            non_matching_published += 1;
        }
    }
    for &(score, idx) in &s.matches {
        match s.universe.iter().find(|u| u.idx == idx) {
            None => v(out, "C06", "match_outside_stream", format!("{when}: match index {idx} is not a published item of the snapshot's stream")),
            Some(u) => match u.ref_score {
                None => v(out, "C06", "non_matching_item_listed", format!("{when}: item {idx} does not match the snapshot's pattern {} but is listed", s.pattern)),
                Some(r) if r != score => v(out, "C06", "stale_score", format!("{when}: item {idx} is listed with score {score}, the snapshot's pattern {} scores it {r}", s.pattern)),
                _ => {}
            },
        }
    }
    let matched = s.matches.len() as u32;
    if matched > s.item_count {
        v(out, "C06", "count_below_matches", format!("{when}: {matched} matches but item_count {}", s.item_count));
    }
    if s.item_count as usize > s.universe.len() {
        v(out, "C06", "count_above_published", format!("{when}: item_count {} exceeds the {} published items", s.item_count, s.universe.len()));
    } else if matched <= s.item_count && (s.item_count - matched) as usize > non_matching_published {
        v(out, "C06", "matching_item_missing", format!("{when}: item_count {} with {matched} matches needs {} processed non-matching items, only {non_matching_published} exist: a processed matching item is missing", s.item_count, s.item_count - matched));
    }
    // (5) order
    if s.pattern_empty {
        if s.matches.windows(2).any(|w| w[0].1 >= w[1].1) {
            v(out, "C06", "order_empty_pattern", format!("{when}: matches of an empty pattern are not in insertion order: {:?}", s.matches));
        }
    } else if s.items.iter().all(|i| i.is_some()) {
        let listed: Vec<(u32, &Uni)> = s.matches.iter().filter_map(|&(sc, idx)| s.universe.iter().find(|u| u.idx == idx).map(|u| (sc, u))).collect();
        if listed.len() == s.matches.len() {
            let want = order_ref(listed);
            if want != s.matches {
                v(out, "C06", "order", format!("{when}: matches {:?} are not ordered by (score desc, length asc, index asc): expected {:?}", s.matches, want));
            }
        }
    }
    // (6)
    if !s.consistent_accessors {
        v(out, "C06", "accessors_disagree", format!("{when}: matched_items / get_matched_item / matched_item_count disagree with matches + get_item"));
    }
}

pub fn judge(scn: &Scenario, rr: &RunResult, out: &mut Vec<Viol>) {
    let obs = &rr.obs;
    let log = &rr.trace.log;
    // ---------------------------------------------------------------- outcome
    match &rr.trace.outcome {
        Outcome::Completed => {}
        Outcome::Diverged(d) => common::machinery_failure(&format!("schedule replay diverged: {d}")),
        Outcome::Deadlock { parked } => {
            let u_waits = parked.iter().any(|(t, p)| *t == T_U && p.starts_with("U:wait_notify"));
            if u_waits {
                v(out, "C13", "lost_wakeup", format!("the event loop waits for a notification that never comes (parked: {parked:?})"));
            } else {
                let sig = parked.iter().map(|(t, p)| format!("{t}@{}", p.split(' ').next().unwrap_or(""))).collect::<Vec<_>>().join("+");
                v(out, "C06", &format!("deadlock/{sig}"), format!("no thread can make progress (parked: {parked:?})"));
            }
        }
    }
    if !rr.trace.inactive_deref.is_empty() {
        v(out, "C06", "uninitialised_item_dereferenced", format!("get_unchecked was called for unpublished indices {:?}", rr.trace.inactive_deref));
    }
    // matcher scratch exclusivity (C09's clause about per-thread scratch memory, SC monitor)
    {
        let mut owner: std::collections::BTreeMap<u64, std::thread::ThreadId> = Default::default();
        for (idx, th) in &rr.trace.matcher_use {
            // idx is the address of the scratch slot the library actually handed out
            if let Some(o) = owner.insert(*idx, *th) {
                if o != *th {
                    v(out, "C09", "scratch_shared", format!("matcher scratch slot {idx} was used by two OS threads"));
                }
            }
        }
        // runs never overlap: between a run's start and its exit no other run starts
        let mut live: Option<usize> = None;
        for e in log {
            if e.tid >= T_WORKER0 {
                if e.what == "@run:start" {
                    if let Some(l) = live {
                        if l != e.tid {
                            v(out, "C09", "runs_overlap", format!("run {} started while run {l} had not exited", e.tid));
                        }
                    }
                    live = Some(e.tid);
                } else if e.what == "@run:exit" {
                    live = None;
                }
            }
        }
    }

    // ---------------------------------------------------------------- per observation
    let mut cur_gen_pushes: Vec<(u64, u32, usize)> = Vec::new(); // (return time, gen, n items)
    let mut last_restart_false: Option<(SnapCopy, u32)> = None;
    let mut max_gen_seen: Option<u32> = None;
    let all_push_returns: Vec<u64> = obs.iter().filter_map(|o| if let Obs::PushReturn { t, .. } = o { Some(*t) } else { None }).collect();
    let all_push_calls: Vec<u64> = obs.iter().filter_map(|o| if let Obs::PushCall { t, .. } = o { Some(*t) } else { None }).collect();
    let mut last_tick_begin: Option<(u64, u32)> = None;
    let mut first_restart_mark: Option<usize> = None;
    let mut cleared_to: Option<u32> = None;
    // C11: the items the snapshot currently lists as matches (a snapshot that a tick reports as
    // unchanged still lists the same items, whatever its accessors return now)
    let mut snap_listed: Vec<crate::e2::ItemData> = Vec::new();
    for (oi, o) in obs.iter().enumerate() {
        if matches!(o, Obs::Restart { .. }) && first_restart_mark.is_none() {
            first_restart_mark = Some(out.len());
        }
        match o {
            Obs::PushReturn { t, gen, ids, visible, thread, .. } => {
                cur_gen_pushes.push((*t, *gen, ids.len()));
                if !*visible {
                    v(out, "C08", "completed_push_not_visible", format!("thread {thread}: push/extend of {ids:?} returned but the items are not visible through the injector"));
                }
                // C13 (3): the injector's notify comes after every item of the call is published
                // find the PushCall of this thread preceding this return
                let call_t = obs[..oi].iter().rev().find_map(|p| if let Obs::PushCall { t, thread: th, .. } = p { if th == thread { Some(*t) } else { None } } else { None }).unwrap_or(0);
                let mut published = 0;
                let mut notified = false;
                for e in log.iter().filter(|e| e.tid == *thread && e.t > call_t && e.t < *t) {
                    if e.what == "@boxcar:before_publish" {
                        if notified {
                            v(out, "C13", "injector_notify_before_visible", format!("thread {thread}: notify was called before item index {} of the call was published", e.data));
                        }
                        published += 1;
                    } else if e.what == "notify" {
                        notified = true;
                        if published < ids.len() {
                            v(out, "C13", "injector_notify_before_visible", format!("thread {thread}: notify was called after {published} of {} items were published", ids.len()));
                        }
                    }
                }
                if !notified {
                    v(out, "C13", "injector_no_notify", format!("thread {thread}: push/extend of {ids:?} returned without calling notify"));
                }
            }
            Obs::TickBegin { t, gen, .. } => last_tick_begin = Some((*t, *gen)),
            Obs::TickEnd { t, changed, running, before, after, cur_pattern } => {
                let when = format!("tick ending at t={t}");
                // a tick that reports "unchanged" leaves the snapshot listing what it listed (C19);
                // otherwise it lists what its accessors return now
                if *changed {
                    snap_listed = after.items.iter().flatten().copied().collect();
                }
                check_snapshot_c06(after, &when, out);
                // C19
                if !*changed && !before.same_view(after) {
                    v(out, "C19", "unchanged_but_different", format!("{when}: reported changed=false but the snapshot differs (before {:?}/{} after {:?}/{})", before.matches, before.item_count, after.matches, after.item_count));
                }
                if let Some((tb, gen)) = last_tick_begin {
                    if !*running {
                        let completed: usize = cur_gen_pushes.iter().filter(|(rt, g, _)| *rt < tb && *g == gen).map(|x| x.2).sum::<usize>()
                            + if gen == 0 { scn.preload.len() } else { 0 };
                        if (after.item_count as usize) < completed {
                            v(out, "C19", "idle_but_items_unaccounted", format!("{when}: reported running=false but item_count {} < {completed} pushes completed before the tick began", after.item_count));
                        }
                        if &after.pattern != cur_pattern {
                            v(out, "C19", "idle_but_stale_pattern", format!("{when}: reported running=false but the snapshot pattern {} is not the current pattern {cur_pattern}", after.pattern));
                        }
                    }
                }
                if let Some(g) = cleared_to {
                    if after.universe.iter().any(|u| u.data.gen < g) {
                        v(out, "C12", "old_stream_reachable_after_clear", format!("{when}: get_item returns items of a stream that was cleared away by restart(true)"));
                    }
                }
                // C12: one stream per snapshot, never back to an older stream, restart(false) keeps the view
                let gens: BTreeSet<u32> = after.items.iter().flatten().map(|d| d.gen).collect();
                if gens.len() > 1 {
                    v(out, "C12", "streams_mixed", format!("{when}: the snapshot mixes items of streams {gens:?}"));
                }
                if let Some(&g) = gens.iter().next() {
                    if let Some(m) = max_gen_seen {
                        if g < m {
                            v(out, "C12", "old_stream_reappears", format!("{when}: snapshot shows stream {g} after stream {m} had been shown"));
                        }
                    }
                    max_gen_seen = Some(max_gen_seen.map_or(g, |m| m.max(g)));
                }
                if let Some((pre, new_gen)) = &last_restart_false {
                    let shows_new = after.items.iter().flatten().any(|d| d.gen >= *new_gen) || (after.matches.is_empty() && after.item_count == 0) || after.universe.iter().any(|u| u.data.gen >= *new_gen) || after.universe.is_empty();
                    if shows_new {
                        last_restart_false = None;
                    } else if !(pre.matches == after.matches && pre.item_count == after.item_count && pre.items == after.items) {
                        v(out, "C12", "view_changed_before_new_run", format!("{when}: after restart(false) the snapshot changed although no run over the new stream has completed"));
                    }
                }
                // an item of an older stream in a snapshot of a newer stream
                if let Some(ug) = after.universe.iter().map(|u| u.data.gen).max() {
                    if after.items.iter().flatten().any(|d| d.gen < ug) && after.items.iter().flatten().any(|d| d.gen == ug) {
                        v(out, "C12", "streams_mixed", format!("{when}: items of an older stream listed next to stream {ug}"));
                    }
                }
            }
            Obs::Restart { t, clear, before, after, new_gen } => {
                let when = format!("restart({clear}) at t={t}");
                // restart(true) empties the snapshot, restart(false) leaves it exactly as it was
                if *clear {
                    snap_listed = after.items.iter().flatten().copied().collect();
                }
                if *clear {
                    if !after.matches.is_empty() || after.item_count != 0 {
                        v(out, "C12", "clear_not_immediate", format!("{when}: snapshot not empty immediately ({} matches, item_count {})", after.matches.len(), after.item_count));
                    }
                    // "empty immediately" also for access by index: nothing of an older stream may
                    // be reachable through the cleared snapshot, now or at any later tick
                    if after.universe.iter().any(|u| u.data.gen < *new_gen) {
                        v(out, "C12", "old_stream_reachable_after_clear", format!("{when}: get_item still returns items of the old stream"));
                    }
                    cleared_to = Some(*new_gen);
                    last_restart_false = None;
                } else {
                    if !(before.matches == after.matches && before.item_count == after.item_count && before.items == after.items) {
                        v(out, "C12", "keep_changed_view", format!("{when}: the snapshot changed although clear_snapshot was false"));
                    }
                    check_snapshot_c06(after, &when, out);
                    if last_restart_false.is_none() {
                        last_restart_false = Some((after.clone(), *new_gen));
                    }
                }
                max_gen_seen = max_gen_seen.map(|m| m.min(*new_gen));
            }
            Obs::Active { reported, expected, op, t } => {
                // the handle model only knows U's own handles
                let modelled = scn.injectors.is_empty() && !scn.u.iter().any(|o| matches!(o, crate::e2::UOp::GiveInjector(_)));
                if *reported == usize::MAX {
                    v(out, "C20", "active_injectors_panicked", format!("after {op} (t={t}): active_injectors() panicked (the subtraction underflowed); live handles of the current stream = {expected}"));
                } else if modelled && reported != expected {
                    v(out, "C20", "active_injectors", format!("after {op} (t={t}): active_injectors() = {reported}, live handles of the current stream = {expected}"));
                }
            }
            Obs::Quiescent { t, snap, cur_pattern, gen } => {
                // C07 applies once no injector is active any more
                let tb = last_tick_begin.map_or(0, |x| x.0);
                let injectors_done = all_push_returns.iter().all(|r| *r < tb) && all_push_calls.iter().all(|c| *c < tb) && all_push_calls.len() == all_push_returns.len();
                if injectors_done {
                    let when = format!("quiescent at t={t}");
                    if &snap.pattern != cur_pattern {
                        v(out, "C07", "stale_pattern", format!("{when}: snapshot pattern {} is not the current pattern {cur_pattern}", snap.pattern));
                    } else {
                        if snap.universe.iter().any(|u| u.data.gen != *gen) {
                            v(out, "C07", "wrong_stream", format!("{when}: the snapshot's stream holds items of another stream than the current one ({gen})"));
                        }
                        if snap.item_count as usize != snap.universe.len() {
                            v(out, "C07", "item_count", format!("{when}: item_count {} but {} items were injected into the current stream", snap.item_count, snap.universe.len()));
                        }
                        let want: Vec<(u32, u32)> = if snap.pattern_empty {
                            snap.universe.iter().map(|u| (0, u.idx)).collect()
                        } else {
                            order_ref(snap.universe.iter().filter_map(|u| u.ref_score.map(|s| (s, u))).collect())
                        };
                        if want != snap.matches {
                            let missing = want.iter().any(|w| !snap.matches.iter().any(|m| m.1 == w.1));
                            let class = if missing { "missing_match" } else if snap.matches.len() > want.len() { "extra_match" } else { "score_or_order" };
                            v(out, "C07", class, format!("{when}: snapshot {:?} differs from the from-scratch result {:?} for pattern {cur_pattern}", snap.matches, want));
                        }
                    }
                }
            }
            Obs::DropCheck { t, dropped, live_handles, cur_gen, op } => {
                for k in dropped {
                    if live_handles.get(k.gen as usize).copied().unwrap_or(0) > 0 {
                        v(out, "C11", "e2/dropped_while_injector_alive", format!("t={t} after {op}: item {k:?} was destroyed although an injector of its stream is still alive"));
                    }
                    if *cur_gen == Some(k.gen) {
                        v(out, "C11", "e2/dropped_while_current_stream", format!("t={t} after {op}: item {k:?} of the matcher's current stream was destroyed while the matcher is alive"));
                    }
                    if cur_gen.is_some() && snap_listed.contains(k) {
                        v(out, "C11", "e2/dropped_while_snapshot_lists_it", format!("t={t} after {op}: item {k:?} was destroyed although the snapshot still lists it as a match"));
                    }
                }
            }
            Obs::Final { dropped } => {
                let mut expected: Vec<crate::e2::ItemData> = scn.preload.iter().map(|i| crate::e2::ItemData { gen: 0, id: i.id }).collect();
                for o2 in obs.iter() {
                    if let Obs::PushReturn { gen, ids, .. } = o2 {
                        for id in ids {
                            expected.push(crate::e2::ItemData { gen: *gen, id: *id });
                        }
                    }
                }
                for k in &expected {
                    let n = dropped.iter().filter(|d| *d == k).count();
                    if n == 0 {
                        v(out, "C11", "e2/leak", format!("item {k:?} was never destroyed although the matcher, its snapshot and every injector are gone"));
                    } else if n > 1 {
                        v(out, "C11", "e2/double_drop", format!("item {k:?} was destroyed {n} times"));
                    }
                }
                for k in dropped {
                    if !expected.contains(k) {
                        v(out, "C11", "e2/unknown_item_dropped", format!("an item {k:?} that no completed push injected was destroyed"));
                    }
                }
            }
            Obs::Panicked { t, thread, msg } => {
                let short: String = msg.chars().take(60).collect();
                v(out, "C06", &format!("library_call_panicked/{}", short.replace(|c: char| !c.is_ascii_alphanumeric(), "_")), format!("t={t}: a library call on thread {thread} panicked: {msg}"));
            }
            Obs::HorizonExceeded { t, what } => {
                let injectors_done = all_push_calls.len() == all_push_returns.len() && all_push_returns.iter().all(|r| r < t);
                if injectors_done {
                    v(out, "C07", "no_convergence", format!("t={t}: {what} although no injector is active"));
                }
            }
            _ => {}
        }
    }

    // ---------------------------------------------------------------- C12: state of the old stream
    // must not leak into what the new stream shows: every consistency / from-scratch / panic /
    // convergence violation observed after the first restart is also a violation of the
    // isolation (the run over a cleared worker resets scan position, in-flight list and matches)
    if let Some(mark) = first_restart_mark {
        let mapped: Vec<Viol> = out[mark..]
            .iter()
            .filter(|x| x.prop == "C06" || x.prop == "C07")
            .map(|x| Viol { prop: "C12", sig: format!("C12/after_restart/{}", x.sig), what: format!("after a restart: {}", x.what) })
            .collect();
        out.extend(mapped);
    }

    // ---------------------------------------------------------------- C13 (2)
    // a tick that reports running and is followed by waiting for a notification must be
    // followed by a notify that is not earlier than the release of the worker mutex by the run
    // that was in flight
    for (oi, o) in obs.iter().enumerate() {
        if let Obs::TickEnd { t: te, running: true, .. } = o {
            let followed_by_wait = matches!(obs.get(oi + 1), Some(Obs::Active { .. })) && matches!(obs.get(oi + 2), Some(Obs::WaitNotify { .. })) || matches!(obs.get(oi + 1), Some(Obs::WaitNotify { .. }));
            if !followed_by_wait {
                continue;
            }
            if !matches!(rr.trace.outcome, Outcome::Completed) {
                continue; // the deadlock itself is reported above
            }
            let release = log.iter().find(|e| e.tid >= T_WORKER0 && e.t > *te && e.what == "@run:released").map(|e| e.t);
            // if the loop was woken by something else and began another tick before the run
            // released the worker, that tick takes over (it either picks the results up or
            // reports running again and is judged itself)
            if let Some(tr) = release {
                // the run reads the flag after the release and before its exit point: a tick that
                // begins before that read finds the worker free (or takes over the obligation)
                let wtid = log.iter().find(|e| e.t == tr).map(|e| e.tid).unwrap_or(0);
                let t_exit = log.iter().find(|e| e.tid == wtid && e.t > tr && e.what == "@run:exit").map_or(u64::MAX, |e| e.t);
                let later_tick = obs[oi + 1..].iter().any(|p| matches!(p, Obs::TickBegin { t, .. } if *t < t_exit));
                if later_tick {
                    continue;
                }
            }
            match release {
                None => {
                    // no release after the tick ended (the run had already released the worker
                    // when the tick returned): a notify after the tick began is required
                    let tb = obs[..oi].iter().rev().find_map(|p| if let Obs::TickBegin { t, .. } = p { Some(*t) } else { None }).unwrap_or(0);
                    if !log.iter().any(|e| e.what == "notify" && e.t > tb) {
                        v(out, "C13", "no_notify_after_running_tick", format!("tick ending at t={te} reported running but notify was never called afterwards"));
                    }
                }
                Some(tr) => {
                    if !log.iter().any(|e| e.what == "notify" && e.t > tr) {
                        v(out, "C13", "notify_before_results_available", format!("tick ending at t={te} reported running; the run released the worker at t={tr} but no notify follows that release"));
                    }
                }
            }
        }
    }
}
