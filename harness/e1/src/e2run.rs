//! Scenario families per property, exploration driver, sharding over child processes, replay.

use std::collections::BTreeMap;

use common::{json, machinery_failure, Report, Value};

use crate::e2::{run_scenario, IOp, ItemSpec, Obs, Scenario, UOp};
use crate::e2props::{judge, Viol};
use crate::sched::{explore, install_hooks, Outcome};

fn it(id: u32, text: &'static str) -> ItemSpec {
    ItemSpec { id, text }
}

const PRELOAD4: &[(u32, &str)] = &[(100, "a"), (101, "ab"), (102, "b"), (103, "xa")];

fn preload4() -> Vec<ItemSpec> {
    PRELOAD4.iter().map(|&(i, t)| it(i, t)).collect()
}

// ------------------------------------------------------------------------------------ families

/// Family H: writers *held* between reserving an index and publishing the item (their fill
/// callback blocks on a gate the script opens), so the "paused writer" part of the quantifier is
/// covered without spending preemptions: two single pushes or one batch held at its second item,
/// released in either order around a pattern edit of every kind, pools of 1 and 2 threads.
fn held_family(thorough: bool) -> Vec<Scenario> {
    let mut v = Vec::new();
    for pool in [1usize, 2] {
        for p0 in ["a", ""] {
            for (ei, edit) in [None, Some("ab"), Some("b"), Some("")].iter().enumerate() {
                if p0.is_empty() && *edit == Some("") {
                    continue;
                }
                for first in [0usize, 1] {
                    for batch in [false, true] {
                        if batch && first == 1 {
                            continue;
                        }
                        // quick tier: every edit kind and both release orders on one worker thread
                        // for the non-empty start pattern; the rebuilding edits elsewhere
                        if !thorough {
                            let rebuilds = matches!(edit, Some("b") | Some(""));
                            if (pool == 2 || p0.is_empty()) && !rebuilds {
                                continue;
                            }
                            if pool == 2 && p0.is_empty() {
                                continue;
                            }
                        }
                        let mut u = vec![UOp::Reparse(0, p0), UOp::Tick, UOp::Release(first)];
                        if let Some(e) = edit {
                            u.push(UOp::Reparse(0, e));
                        }
                        u.push(UOp::Tick);
                        u.push(UOp::Release(1 - first));
                        if thorough {
                            u.push(UOp::Tick);
                        }
                        u.push(UOp::Drain(6));
                        let injectors = if batch {
                            vec![(true, vec![IOp::ExtendHeld(vec![it(1, "a"), it(2, "ab"), it(3, "b")], 1, 0)])]
                        } else {
                            vec![(true, vec![IOp::PushHeld(it(1, "a"), 0)]), (true, vec![IOp::PushHeld(it(2, "ab"), 1)])]
                        };
                        v.push(Scenario {
                            name: format!("H/pool{pool}/p0={p0:?}/e{ei}/first{first}/batch{}", batch as u8),
                            pool_threads: pool,
                            columns: 1,
                            preload: vec![it(100, "ab"), it(101, "b")],
                            u,
                            injectors,
                            slots: 2,
                            bound: 0,
                            fine: true,
                            flag_points: false,
                        });
                    }
                }
            }
        }
    }
    v
}

pub fn scenarios(prop: &str, thorough: bool) -> Vec<Scenario> {
    let mut v = Vec::new();
    match prop {
        "C13" => {
            for p in ["", "a"] {
                for variant in 0..8 {
                    if (variant == 4 || variant == 5) && p.is_empty() {
                        continue;
                    }
                    // (needs the hook point in front of update_config's lock)
                    if variant == 7 && !crate::sched::has_update_config_hook() {
                        continue;
                    }
                    let mut u = vec![UOp::Reparse(0, p)];
                    let mut inj = Vec::new();
                    match variant {
                        0 => {}
                        1 => inj.push((true, vec![IOp::Push(it(1, "ab"))])),
                        // a writer using the batch call: its notification, too, must follow the
                        // publication of every item of the batch
                        6 => inj.push((true, vec![IOp::Extend(vec![it(5, "a"), it(6, "ab")])])),
                        // the configuration is changed while the run that a tick left behind is
                        // in flight: the wake-up for that tick must still come
                        7 => {
                            u.push(UOp::Tick);
                            u.push(UOp::Push(it(2, "a")));
                        }
                        2 => {
                            u.push(UOp::Tick);
                            u.push(UOp::Reparse(0, if p.is_empty() { "b" } else { "ab" }));
                        }
                        3 => {
                            u.push(UOp::Tick);
                            u.push(UOp::Push(it(2, "a")));
                        }
                        // a run that can be interrupted, followed by work that takes the
                        // empty-pattern / cleared path: state left by the interrupted run must not
                        // suppress the wake-up of the next one
                        4 => {
                            u.push(UOp::Tick);
                            u.push(UOp::Reparse(0, ""));
                        }
                        _ => {
                            u.push(UOp::Tick);
                            u.push(UOp::Restart(false));
                        }
                    }
                    u.push(if variant == 7 { UOp::EventLoopCfg(6) } else { UOp::EventLoop(6) });
                    if variant == 0 {
                        // a writer held between reserving and publishing: every tick reports running
                        // (an item is outstanding) and every such tick must be followed by a
                        // notification although the run it leaves behind finds nothing new
                        for tick_first in [false, true] {
                            let mut uh = vec![UOp::Reparse(0, p)];
                            if tick_first {
                                uh.push(UOp::Tick);
                            }
                            uh.extend([UOp::EventLoop(2), UOp::Release(0), UOp::EventLoop(6)]);
                            v.push(Scenario {
                                name: format!("C13/p={p:?}/held/tick_first={tick_first}"),
                                pool_threads: 1,
                                columns: 1,
                                preload: preload4(),
                                u: uh,
                                injectors: vec![(true, vec![IOp::PushHeld(it(1, "ab"), 0)])],
                                slots: 1,
                                bound: 0,
                                fine: true,
                                flag_points: false,
                            });
                        }
                    }
                    v.push(Scenario {
                        name: format!("C13/p={p:?}/v{variant}"),
                        pool_threads: 1,
                        columns: 1,
                        preload: preload4(),
                        u,
                        injectors: inj,
                        slots: 0,
                    bound: 0,
                    fine: true,
                    flag_points: false,
                    });
                }
            }
        }
        "C06" | "C19" => {
            v.extend(held_family(thorough));
            v.extend(scenarios("C07", thorough).into_iter().filter(|s| s.name.starts_with("Big/") || s.name.starts_with("MC/") || s.name.starts_with("MC2/") || s.name.starts_with("NG/") || s.name.starts_with("E/") || s.name.starts_with("EE/")));
            v.extend(scenarios("C12", thorough).into_iter().filter(|s| s.name.starts_with("RE/")));
            // small scripts, explored with a higher preemption bound
            for pool in [1usize, 2] {
                for (xi, x) in [None, Some(UOp::Reparse(0, "ab")), Some(UOp::Reparse(0, "b")), Some(UOp::Restart(false))].iter().enumerate() {
                    for i2 in 0..2 {
                        // quick tier: the batch writer (two reservations in flight) on every edit
                        // kind for one worker thread, the rescoring edits for two
                        if !thorough && (i2 == 0 || (pool == 2 && xi != 2) || (pool == 1 && xi == 0)) {
                            continue;
                        }
                        let mut u = vec![UOp::Reparse(0, "a"), UOp::Tick];
                        if let Some(x) = x {
                            u.push(x.clone());
                        }
                        u.push(UOp::Tick);
                        let i2s = if i2 == 0 { vec![IOp::Push(it(3, "ab"))] } else { vec![IOp::Extend(vec![it(3, "ab"), it(4, "xb")])] };
                        v.push(Scenario {
                            name: format!("As/pool{pool}/x{xi}/i2={i2}"),
                            pool_threads: pool,
                            columns: 1,
                            preload: vec![it(100, "ab"), it(101, "b")],
                            u,
                            injectors: vec![(true, vec![IOp::Push(it(1, "a"))]), (true, i2s)],
                            slots: 0,
                            bound: 0,
                    fine: true,
                    flag_points: false,
                        });
                    }
                }
            }
            let p1s: &[&str] = if thorough { &["", "a", "ab", "!a"] } else { &["", "a"] };
            let xs: Vec<Option<UOp>> = vec![None, Some(UOp::Reparse(0, "ab")), Some(UOp::Reparse(0, "b")), Some(UOp::Restart(true)), Some(UOp::Restart(false))];
            for pool in [1usize, 2] {
                for &p1 in p1s {
                    for (xi, x) in xs.iter().enumerate() {
                        for i2 in 0..2 {
                            for cols in [1u32, 2] {
                                if cols == 2 && (xi != 1 || i2 != 0) && !thorough {
                                    continue;
                                }
                                let mut u = vec![UOp::Reparse(0, p1), UOp::Tick];
                                if let Some(x) = x {
                                    u.push(x.clone());
                                }
                                u.push(UOp::Tick);
                                u.push(UOp::Tick);
                                let i1 = vec![IOp::Push(it(1, "a")), IOp::Push(it(2, "b"))];
                                let i2s = if i2 == 0 { vec![IOp::Push(it(3, "ab"))] } else { vec![IOp::Extend(vec![it(3, "ab"), it(4, "xb")])] };
                                v.push(Scenario {
                                    name: format!("A/pool{pool}/p1={p1:?}/x{xi}/i2={i2}/cols{cols}"),
                                    pool_threads: pool,
                                    columns: cols,
                                    preload: vec![it(100, "ab"), it(101, "b")],
                                    u,
                                    injectors: vec![(true, i1), (true, i2s)],
                                    slots: 0,
                    bound: 0,
                    fine: true,
                    flag_points: false,
                                });
                            }
                        }
                    }
                }
            }
        }
        "C07" => {
            // (a) sequential histories followed by a drain
            let texts: &[&str] = &["", "a", "ab", "a$", "a$b", "^a", "!a", "!ab", "a\\", "a\\ b", "a b", "A", "b"];
            let mut ops: Vec<UOp> = texts.iter().map(|t| UOp::Reparse(0, t)).collect();
            ops.push(UOp::Tick);
            ops.push(UOp::Restart(true));
            ops.push(UOp::Restart(false));
            ops.push(UOp::Push(it(1, "ab")));
            ops.push(UOp::Push(it(2, "a$b")));
            ops.push(UOp::Extend(vec![it(3, "a b"), it(4, "ba")]));
            let depth = if thorough { 4 } else { 3 };
            let k = ops.len() as u64;
            let n = crate::dom::count_strings(ops.len(), depth);
            for pool in [1usize, 2] {
                if pool == 2 && thorough {
                    // the sequential histories do not depend on the pool size beyond what depth 3 shows
                    continue;
                }
                for hi in 0..n {
                    // decode history hi
                    let mut i = hi;
                    let mut len = 0;
                    let mut p = 1u64;
                    while i >= p {
                        i -= p;
                        p *= k;
                        len += 1;
                    }
                    let mut idxs = vec![0usize; len];
                    for pos in (0..len).rev() {
                        idxs[pos] = (i % k) as usize;
                        i /= k;
                    }
                    // histories that never tick before the drain are covered by shorter ones
                    let mut u: Vec<UOp> = Vec::new();
                    let mut id = 10;
                    for &oi in &idxs {
                        let mut op = ops[oi].clone();
                        // fresh ids for repeated pushes
                        match &mut op {
                            UOp::Push(s) => {
                                s.id = id;
                                id += 1;
                            }
                            UOp::Extend(ss) => {
                                for s in ss.iter_mut() {
                                    s.id = id;
                                    id += 1;
                                }
                            }
                            _ => {}
                        }
                        u.push(op);
                    }
                    u.push(UOp::Drain(8));
                    v.push(Scenario {
                        name: format!("C07a/pool{pool}/{}", idxs.iter().map(|i| i.to_string()).collect::<Vec<_>>().join(".")),
                        pool_threads: pool,
                        columns: 1,
                        preload: vec![it(100, "a"), it(101, "a$"), it(102, "a\\"), it(103, "a b"), it(104, "A"), it(105, "xab"), it(106, "xa$b")],
                        u,
                        injectors: vec![],
                        slots: 0,
                    bound: 0,
                    fine: true,
                    flag_points: false,
                    });
                }
            }
            v.extend(held_family(thorough));
            // (E) chains of three pattern texts with a tick (timing out or completing) after each:
            // every combination of append / non-append / emptying edits, so that a run queued for
            // one edit can be overtaken by the next edit in any state (not started, half way, done)
            {
                let texts: &[&str] = &["", "a", "ab", "b", "bc", "c"];
                for pool in [1usize, 2] {
                    for t0 in texts {
                        for t1 in texts {
                            for t2 in texts {
                                if t0 == t1 || t1 == t2 {
                                    continue;
                                }
                                if pool == 2 && !thorough && !(t2.starts_with(*t1) && !t1.is_empty()) {
                                    continue;
                                }
                                v.push(Scenario {
                                    name: format!("E/pool{pool}/{t0:?}>{t1:?}>{t2:?}"),
                                    pool_threads: pool,
                                    columns: 1,
                                    preload: vec![it(100, "a"), it(101, "ab"), it(102, "b"), it(103, "bc"), it(104, "xbxc"), it(105, "c"), it(106, "ca")],
                                    u: vec![UOp::Reparse(0, t0), UOp::Tick, UOp::Reparse(0, t1), UOp::Tick, UOp::Reparse(0, t2), UOp::Drain(6)],
                                    injectors: vec![],
                                    slots: 0,
                                    bound: 0,
                                    fine: true,
                                    flag_points: false,
                                });
                            }
                        }
                    }
                }
            }
            // (EE) two or three edits between two ticks: the status handed to the run must be the
            // strongest one since the last tick, not the one of the last edit
            {
                let texts: &[&str] = &["", "a", "ab", "b", "bc", "c", "abx"];
                for pool in [1usize, 2] {
                    if pool == 2 && !thorough {
                        continue;
                    }
                    for t0 in texts {
                        for t1 in texts {
                            for t2 in texts {
                                if t0 == t1 || t1 == t2 {
                                    continue;
                                }
                                let mut variants: Vec<Vec<UOp>> = vec![vec![UOp::Reparse(0, t0), UOp::Tick, UOp::Reparse(0, t1), UOp::Reparse(0, t2), UOp::Drain(6)]];
                                if thorough {
                                    for t3 in texts {
                                        if t3 != t2 && t3.starts_with(*t2) {
                                            variants.push(vec![UOp::Reparse(0, t0), UOp::Tick, UOp::Reparse(0, t1), UOp::Reparse(0, t2), UOp::Reparse(0, t3), UOp::Drain(6)]);
                                        }
                                    }
                                }
                                for (vi, u) in variants.into_iter().enumerate() {
                                    v.push(Scenario {
                                        name: format!("EE/pool{pool}/{t0:?}>{t1:?}+{t2:?}/v{vi}"),
                                        pool_threads: pool,
                                        columns: 1,
                                        preload: vec![it(100, "a"), it(101, "ab"), it(102, "b"), it(103, "bc"), it(104, "xbxc"), it(105, "c"), it(106, "ca"), it(107, "abx"), it(108, "xaxb")],
                                        u,
                                        injectors: vec![],
                                        slots: 0,
                                        bound: 0,
                                        fine: true,
                                        flag_points: false,
                                    });
                                }
                            }
                        }
                    }
                }
            }
            v.extend(scenarios("C12", thorough).into_iter().filter(|s| s.name.starts_with("RE/")));
            // (MC) two columns: every pair of column texts, then one more edit in either column
            // (an append or not), with a tick in between; items whose columns differ
            {
                let texts: &[&str] = &["", "a", "ab", "b"];
                for t0 in texts {
                    for t1 in texts {
                        for col in [0usize, 1] {
                            for t2 in texts {
                                let before = if col == 0 { t0 } else { t1 };
                                if t2 == before {
                                    continue;
                                }
                                if !thorough && !(t2.starts_with(*before) || before.is_empty() || t2.is_empty()) && col == 0 {
                                    continue;
                                }
                                v.push(Scenario {
                                    name: format!("MC/{t0:?},{t1:?}>col{col}={t2:?}"),
                                    pool_threads: 1,
                                    columns: 2,
                                    preload: vec![it(100, "a"), it(101, "ab"), it(102, "ba"), it(103, "b"), it(104, "xab"), it(105, "bxa"), it(106, "c")],
                                    u: vec![UOp::Reparse(0, t0), UOp::Reparse(1, t1), UOp::Tick, UOp::Reparse(col, t2), UOp::Drain(6)],
                                    injectors: vec![],
                                    slots: 0,
                                    bound: 0,
                                    fine: true,
                                    flag_points: false,
                                });
                            }
                        }
                    }
                }
            }
            // (NG) patterns made of negated atoms only: every match scores 0, like the placeholders of
            // scanned items that do not match or are not published yet
            for pool in [1usize, 2] {
                for (pi, p) in ["!a", "!b", "!a !b", "!ab", "!a b"].iter().enumerate() {
                    for with_writer in [false, true] {
                        v.push(Scenario {
                            name: format!("NG/pool{pool}/p{pi}/writer={with_writer}"),
                            pool_threads: pool,
                            columns: 1,
                            preload: vec![it(100, "a"), it(101, "c"), it(102, "ab"), it(103, "b"), it(104, "zzz"), it(105, "ca"), it(106, "bb"), it(107, "c")],
                            u: vec![UOp::Reparse(0, p), UOp::Tick, UOp::Push(it(20, "xyz")), UOp::Tick, UOp::Drain(6)],
                            injectors: if with_writer { vec![(true, vec![IOp::Push(it(1, "q")), IOp::Push(it(2, "a"))])] } else { vec![] },
                            slots: 0,
                            bound: 0,
                            fine: true,
                            flag_points: false,
                        });
                    }
                }
            }
            // (MC2) two columns, both edited between two ticks (in either order): the status handed
            // to the run must be the strongest over the columns
            {
                let texts: &[&str] = &["", "a", "ab", "b"];
                for t0 in texts {
                    for t1 in texts {
                        for t2 in texts {
                            for t3 in texts {
                                if t2 == t0 || t3 == t1 {
                                    continue;
                                }
                                // quick tier: one of the two edits is an append of a non-empty text, the other is not
                                let app0 = t2.starts_with(*t0) && !t0.is_empty();
                                let app1 = t3.starts_with(*t1) && !t1.is_empty();
                                if !thorough && app0 == app1 {
                                    continue;
                                }
                                for first in [0usize, 1] {
                                    let (e_a, e_b) = if first == 0 { (UOp::Reparse(0, t2), UOp::Reparse(1, t3)) } else { (UOp::Reparse(1, t3), UOp::Reparse(0, t2)) };
                                    v.push(Scenario {
                                        name: format!("MC2/{t0:?},{t1:?}>{t2:?},{t3:?}/first{first}"),
                                        pool_threads: 1,
                                        columns: 2,
                                        preload: vec![it(100, "a"), it(101, "ab"), it(102, "ba"), it(103, "b"), it(104, "xab"), it(105, "bxa"), it(106, "c")],
                                        u: vec![UOp::Reparse(0, t0), UOp::Reparse(1, t1), UOp::Tick, e_a, e_b, UOp::Drain(6)],
                                        injectors: vec![],
                                        slots: 0,
                                        bound: 0,
                                        fine: true,
                                        flag_points: false,
                                    });
                                }
                            }
                        }
                    }
                }
            }
            // (Ap) appending edits of every shape: each start text (plain, negated, anchored,
            // escaped, multi-word with a negated word first or last) extended by each suffix kind
            // (same word, new word, new negated word, anchor, blank, backslash); the from-scratch
            // reference decides whether the shortcut an "append" allows was legitimate
            {
                let starts: &[&str] = &["a", "!a", "a !b", "!a b", "a$", "^a", "a\\", "!a$", "'a", "a b"];
                let suffixes: &[&str] = &["b", " c", "b c", " !c", "$", " ", "\\", "c !b"];
                for pool in [1usize, 2] {
                    if pool == 2 && !thorough {
                        continue;
                    }
                    for t1 in starts {
                        for sfx in suffixes {
                            let t2: &'static str = Box::leak(format!("{t1}{sfx}").into_boxed_str());
                            v.push(Scenario {
                                name: format!("Ap/pool{pool}/{t1:?}>{t2:?}"),
                                pool_threads: pool,
                                columns: 1,
                                preload: vec![it(100, "a"), it(101, "ab"), it(102, "ac"), it(103, "a c"), it(104, "abc"), it(105, "ab c"), it(106, "b"), it(107, "c"), it(108, "a$"), it(109, "a\\"), it(110, "xa"), it(111, "a b"), it(112, "ba c")],
                                u: vec![UOp::Reparse(0, t1), UOp::Tick, UOp::Reparse(0, t2), UOp::Drain(6)],
                                injectors: vec![],
                                slots: 0,
                                bound: 0,
                                fine: true,
                                flag_points: false,
                            });
                        }
                    }
                }
            }
            // (Big) the same protocol at sizes where the worker's chunking, the vector's bucket
            // boundaries and the parallel sort's thresholds matter: n items with many equal scores,
            // an append edit, one more item, drain; the final snapshot must be the from-scratch result
            {
                let pool_texts: [&str; 8] = ["a", "ab", "xab", "b", "ba", "a b", "Ab", "zzz"];
                // around the vector's bucket boundaries (32, 96, 224, 480, 992, 2016, 4064), its
                // pre-allocated capacity (1024) and the parallel sort's threshold (2000)
                let sizes: &[usize] = if thorough { &[1, 31, 32, 33, 95, 96, 97, 223, 224, 225, 479, 480, 481, 991, 992, 993, 1023, 1024, 1025, 2000, 2001, 2015, 2016, 2017, 4065, 5000] } else { &[33, 97, 993, 1025, 2017] };
                for &n in sizes {
                    for pool in [1usize, 2] {
                        if pool == 2 && !thorough && n != 2017 {
                            continue;
                        }
                        let preload: Vec<ItemSpec> = (0..n).map(|i| it(1000 + i as u32, pool_texts[(i * 5 + i / 8) % 8])).collect();
                        v.push(Scenario {
                            name: format!("Big/pool{pool}/n{n}"),
                            pool_threads: pool,
                            columns: 1,
                            preload,
                            u: vec![UOp::Reparse(0, "a"), UOp::Tick, UOp::Reparse(0, "ab"), UOp::Tick, UOp::Push(it(1, "ab")), UOp::Drain(6)],
                            injectors: vec![],
                            slots: 0,
                            bound: 0,
                            fine: false,
                            flag_points: false,
                        });
                    }
                }
            }
            // (b) interleaved: an injector thread (a writer that can be suspended between reserving
            // and publishing) races the edits / restarts, the new stream gets items of its own,
            // then everything drains
            for pool in [1usize, 2] {
                for (xi, x) in [UOp::Reparse(0, "ab"), UOp::Reparse(0, "b"), UOp::Restart(false), UOp::Restart(true)].iter().enumerate() {
                    let mut u = vec![UOp::Reparse(0, "a"), UOp::Tick, x.clone()];
                    if xi >= 2 {
                        u.push(UOp::Extend(vec![it(20, "a"), it(21, "xa"), it(22, "b"), it(23, "ab")]));
                    }
                    u.push(UOp::Tick);
                    if thorough {
                        u.push(UOp::Reparse(0, if xi == 0 { "abx" } else { "a" }));
                    }
                    u.push(UOp::Drain(8));
                    v.push(Scenario {
                        name: format!("Bs/C07b/pool{pool}/x{xi}"),
                        pool_threads: pool,
                        columns: 1,
                        preload: vec![it(100, "ab"), it(101, "b"), it(102, "a")],
                        u,
                        injectors: vec![(true, if thorough { vec![IOp::Push(it(1, "ab")), IOp::Push(it(2, "xa"))] } else { vec![IOp::Push(it(1, "ab"))] })],
                        slots: 0,
                    bound: 0,
                    fine: true,
                    flag_points: false,
                    });
                }
            }
        }
        "C12" => {
            // restarts in a row without a tick in between; an injector created between them
            // belongs to a stream that is already superseded when it starts pushing
            for pool in [1usize, 2] {
                for b1 in [true, false] {
                    for b2 in [true, false] {
                        for with_new in [false, true] {
                            let mut u = vec![UOp::Reparse(0, "a"), UOp::Tick, UOp::Restart(b1), UOp::GiveInjector(0), UOp::Restart(b2)];
                            if with_new {
                                u.push(UOp::Extend(vec![it(20, "a"), it(21, "ab")]));
                            }
                            u.push(UOp::Tick);
                            u.push(UOp::Drain(6));
                            v.push(Scenario {
                                name: format!("RR/pool{pool}/clear={b1},{b2}/new={with_new}"),
                                pool_threads: pool,
                                columns: 1,
                                preload: vec![it(100, "a"), it(101, "zzz"), it(102, "ab"), it(103, "zz")],
                                u,
                                injectors: vec![(false, vec![IOp::Await(0), IOp::Push(it(3, "ab")), IOp::Push(it(4, "a"))])],
                                slots: 1,
                                bound: 0,
                                fine: true,
                                flag_points: false,
                            });
                        }
                    }
                }
            }
            // (RE) an edit after the restart: the first run over the new stream (the one that resets
            // the worker's scan state) may be cancelled by the edit before it has started or half
            // way; the following run must still see a worker that was reset
            for pool in [1usize, 2] {
                for b1 in [true, false] {
                    for (ei, e) in ["ab", "b", ""].iter().enumerate() {
                        for early in [false, true] {
                            let mut u = vec![UOp::Reparse(0, "a"), UOp::Tick, UOp::Restart(b1)];
                            if early {
                                // the edit comes before the first tick after the restart
                                u.push(UOp::Reparse(0, e));
                            }
                            u.push(UOp::Extend(vec![it(20, "ab"), it(21, "xab"), it(22, "b"), it(23, "a"), it(24, "ab")]));
                            u.push(UOp::Tick);
                            if !early {
                                u.push(UOp::Reparse(0, e));
                            }
                            u.push(UOp::Drain(6));
                            v.push(Scenario {
                                name: format!("RE/pool{pool}/clear={b1}/e{ei}/early={early}"),
                                pool_threads: pool,
                                columns: 1,
                                // the old stream has non-matching items at indices where the new one has matching ones
                                preload: vec![it(100, "a"), it(101, "zzz"), it(102, "ab"), it(103, "zz")],
                                u,
                                injectors: vec![],
                                slots: 0,
                                bound: 0,
                                fine: true,
                                flag_points: false,
                            });
                        }
                    }
                }
            }
            // small scripts with a suspended writer of the old stream, explored with a higher bound
            for pool in [1usize, 2] {
                for p in ["", "a"] {
                    for b1 in [true, false] {
                        if !thorough && pool == 2 && !p.is_empty() {
                            continue;
                        }
                        v.push(Scenario {
                            name: format!("Bs/pool{pool}/p={p:?}/clear={b1}"),
                            pool_threads: pool,
                            columns: 1,
                            preload: vec![it(100, "a"), it(101, "zzz"), it(102, "ab"), it(103, "zz")],
                            u: vec![UOp::Reparse(0, p), UOp::Tick, UOp::Restart(b1), UOp::Extend(vec![it(20, "a"), it(21, "xa"), it(22, "ab")]), UOp::Tick, UOp::Drain(6)],
                            injectors: vec![(true, vec![IOp::Push(it(1, "a"))])],
                            slots: 0,
                            bound: 0,
                            fine: true,
                            flag_points: false,
                        });
                    }
                }
            }
            for pool in [1usize, 2] {
                for p in ["", "a"] {
                    for b1 in [true, false] {
                        for second in 0..3 {
                            if !thorough && pool == 2 && second != 0 {
                                continue;
                            }
                            let mut u = vec![UOp::Reparse(0, p), UOp::Tick, UOp::Restart(b1), UOp::GiveInjector(0), UOp::Tick];
                            match second {
                                1 => u.push(UOp::Restart(true)),
                                2 => u.push(UOp::Restart(false)),
                                _ => {}
                            }
                            if thorough {
                                u.push(UOp::Tick);
                            }
                            u.push(UOp::Drain(6));
                            v.push(Scenario {
                                name: format!("B/pool{pool}/p={p:?}/clear={b1}/second={second}"),
                                pool_threads: pool,
                                columns: 1,
                                preload: vec![it(100, "a"), it(101, "zzz"), it(102, "ab"), it(103, "zz")],
                                u,
                                injectors: if thorough {
                                    vec![
                                        (true, vec![IOp::Push(it(1, "a")), IOp::Push(it(2, "xa"))]),
                                        (false, vec![IOp::Await(0), IOp::Push(it(3, "ab")), IOp::Push(it(4, "a"))]),
                                    ]
                                } else {
                                    vec![(true, vec![IOp::Push(it(1, "a"))]), (false, vec![IOp::Await(0), IOp::Push(it(3, "ab"))])]
                                },
                                slots: 1,
                                bound: 0,
                    fine: true,
                    flag_points: false,
                            });
                        }
                    }
                }
            }
        }
        "C11" => {
            // (1) handle / restart / drop histories on one thread (plus the background runs)
            let ops: Vec<UOp> = vec![
                UOp::TakeHandle,
                UOp::CloneHandle(0),
                UOp::DropHandle(0),
                UOp::DropHandle(1),
                UOp::Restart(true),
                UOp::Restart(false),
                UOp::PushHandle(0, it(1, "a")),
                UOp::PushHandle(1, it(1, "ab")),
                UOp::Tick,
                UOp::DropNucleo,
            ];
            let depth = if thorough { 5 } else { 4 };
            let k = ops.len() as u64;
            let n = crate::dom::count_strings(ops.len(), depth);
            for hi in 0..n {
                let mut i = hi;
                let mut len = 0;
                let mut p = 1u64;
                while i >= p {
                    i -= p;
                    p *= k;
                    len += 1;
                }
                let mut u = vec![UOp::Tick; len];
                for pos in (0..len).rev() {
                    u[pos] = ops[(i % k) as usize].clone();
                    i /= k;
                }
                let mut id = 10;
                for op in u.iter_mut() {
                    if let UOp::PushHandle(_, s) = op {
                        s.id = id;
                        id += 1;
                    }
                }
                v.push(Scenario {
                    name: format!("C11h/{hi}"),
                    pool_threads: 1,
                    columns: 1,
                    preload: vec![it(100, "a")],
                    u,
                    injectors: vec![],
                    slots: 0,
                    bound: 0,
                    fine: true,
                    flag_points: false,
                });
            }
            // (2) an injector thread that outlives restarts and the matcher itself
            for pool in [1usize, 2] {
                for (vi, u) in [
                    vec![UOp::Reparse(0, "a"), UOp::Tick, UOp::Restart(true), UOp::Extend(vec![it(20, "a"), it(21, "ab")]), UOp::Tick, UOp::DropNucleo],
                    vec![UOp::Reparse(0, "a"), UOp::Tick, UOp::Restart(false), UOp::Extend(vec![it(20, "a"), it(21, "ab")]), UOp::Tick],
                    vec![UOp::Tick, UOp::DropNucleo],
                    vec![UOp::Reparse(0, "a"), UOp::Tick, UOp::Restart(true), UOp::Restart(false), UOp::Tick],
                ]
                .into_iter()
                .enumerate()
                {
                    v.push(Scenario {
                        name: format!("Bs/C11t/pool{pool}/v{vi}"),
                        pool_threads: pool,
                        columns: 1,
                        preload: vec![it(100, "a"), it(101, "zzz"), it(102, "ab"), it(103, "zz")],
                        u,
                        injectors: vec![(true, vec![IOp::Push(it(1, "a")), IOp::Push(it(2, "xa")), IOp::DropHandle])],
                        slots: 0,
                        bound: 0,
                        fine: true,
                        flag_points: false,
                    });
                }
            }
        }
        "C09" => {
            // the sequentially consistent monitors of C09 (no two runs overlap; a matcher scratch
            // slot is only ever used by one pool thread, and only by pool threads) are evaluated in
            // every execution of the C06 families with two worker threads
            v.extend(scenarios("C06", thorough).into_iter().filter(|s| s.pool_threads == 2 || s.name.starts_with("H/")));
        }
        "C20" => {
            let ops: Vec<UOp> = vec![
                UOp::TakeHandle,
                UOp::CloneHandle(0),
                UOp::DropHandle(0),
                UOp::DropHandle(1),
                UOp::Restart(true),
                UOp::Restart(false),
                UOp::PushHandle(0, it(1, "a")),
                UOp::Tick,
                // pattern edits: a tick that carries an edit takes the cancelling path, also
                // together with a pending restart
                UOp::Reparse(0, "a"),
                UOp::Reparse(0, ""),
            ];
            let depth = if thorough { 6 } else { 5 };
            let k = ops.len() as u64;
            let n = crate::dom::count_strings(ops.len(), depth);
            for hi in 0..n {
                let mut i = hi;
                let mut len = 0;
                let mut p = 1u64;
                while i >= p {
                    i -= p;
                    p *= k;
                    len += 1;
                }
                let mut u = vec![UOp::Tick; len];
                for pos in (0..len).rev() {
                    u[pos] = ops[(i % k) as usize].clone();
                    i /= k;
                }
                let mut id = 10;
                for op in u.iter_mut() {
                    if let UOp::PushHandle(_, s) = op {
                        s.id = id;
                        id += 1;
                    }
                }
                v.push(Scenario {
                    name: format!("C20/{hi}"),
                    pool_threads: 1,
                    columns: 1,
                    preload: vec![],
                    u,
                    injectors: vec![],
                    slots: 0,
                    bound: 0,
                    fine: true,
                    flag_points: false,
                });
            }
        }
        _ => machinery_failure(&format!("no scenarios for {prop}")),
    }
    if prop == "C20" {
        // "at every point" includes the middle of a background run: short scripts with a
        // non-empty pattern and items, explored with preemptions, so that the count is read while
        // the run is suspended inside its scan, its rescoring loop or its sort
        let scripts: Vec<Vec<UOp>> = vec![
            vec![UOp::Reparse(0, "a"), UOp::TakeHandle, UOp::PushHandle(0, it(1, "a")), UOp::Tick, UOp::Tick, UOp::CloneHandle(0), UOp::Tick],
            vec![UOp::Reparse(0, "a"), UOp::Tick, UOp::Restart(false), UOp::TakeHandle, UOp::PushHandle(0, it(1, "a")), UOp::Tick, UOp::Tick, UOp::DropHandle(0)],
            vec![UOp::Reparse(0, "a"), UOp::Tick, UOp::Restart(true), UOp::TakeHandle, UOp::PushHandle(0, it(1, "ab")), UOp::Tick, UOp::Tick, UOp::DropHandle(0)],
            vec![UOp::TakeHandle, UOp::PushHandle(0, it(1, "ab")), UOp::Reparse(0, "a"), UOp::Tick, UOp::Reparse(0, "ab"), UOp::Tick, UOp::Tick],
            vec![UOp::TakeHandle, UOp::Reparse(0, "a"), UOp::Tick, UOp::Reparse(0, "b"), UOp::Tick, UOp::DropHandle(0), UOp::Tick],
        ];
        for pool in [1usize, 2] {
            for (si, u) in scripts.iter().enumerate() {
                v.push(Scenario {
                    name: format!("Bs/C20s/pool{pool}/s{si}"),
                    pool_threads: pool,
                    columns: 1,
                    preload: vec![it(100, "a"), it(101, "ab"), it(102, "b")],
                    u: u.clone(),
                    injectors: vec![],
                    slots: 0,
                    bound: 0,
                    fine: true,
                    flag_points: false,
                });
            }
        }
    }
    // preemption bounds: the large family-A / family-B scripts are explored with fewer preemptions
    // than the small ones
    for s in v.iter_mut() {
        s.flag_points = prop == "C13";
        let small = s.name.starts_with("As/") || s.name.starts_with("Bs/");
        if small && !thorough && !s.name.contains("C20s") {
            s.fine = false;
        }
        if thorough && prop == "C13" && (s.name.ends_with("/v6") || s.name.ends_with("/v7")) {
            // the scripts with a batch-call injector / configuration updates are the longest ones
            s.bound = 2;
            continue;
        }
        if thorough && (prop == "C06" || prop == "C19") && ["E/", "EE/", "MC/", "MC2/", "NG/", "RE/"].iter().any(|f| s.name.starts_with(f)) {
            // families borrowed from C07 / C12, where they are explored with a preemption
            s.bound = 0;
            continue;
        }
        if s.name.contains("/held/") {
            // event loop around a held writer: long, many free choices; preemptions only in the thorough tier
            s.bound = if thorough { 1 } else { 0 };
            continue;
        }
        if s.name.starts_with("H/") {
            // held writers: the pauses are scripted, every tick and release order is a free
            // choice (tens of thousands of executions per script already at bound 0)
            s.bound = 0;
            continue;
        }
        if thorough && s.name.starts_with("C07a/") {
            // 137 000 sequential histories of depth 4: default schedule plus the free choices (every
            // tick timing out or completing); preemptions are spent on the smaller families
            s.bound = 0;
            continue;
        }
        if s.name.starts_with("Big/") {
            // thousands of items: default schedule plus the free choices (tick timing out or not)
            s.bound = 0;
            s.fine = false;
            continue;
        }
        s.bound = match (prop, thorough) {
            ("C13", false) => 1,
            ("C13", true) => 3,
            ("C09", _) => 0,
            ("C20", false) => {
                if small {
                    1
                } else {
                    0
                }
            }
            ("C20", true) => {
                if small {
                    2
                } else {
                    0
                }
            }
            ("C11", false) | ("C07", false) => {
                if small {
                    1
                } else {
                    0
                }
            }
            ("C11", true) | ("C07", true) => {
                if small {
                    2
                } else {
                    1
                }
            }
            (_, false) => {
                if small {
                    1
                } else {
                    0
                }
            }
            (_, true) => {
                if small {
                    2
                } else {
                    1
                }
            }
        };
    }
    v
}

fn bounds(prop: &str, thorough: bool) -> Vec<u32> {
    match (prop, thorough) {
        ("C13", false) => vec![0, 1],
        ("C13", true) => vec![0, 1, 2, 3],
        ("C07", false) => vec![0],
        ("C20", false) => vec![0, 1],
        ("C20", true) => vec![0, 1, 2],
        ("C07", true) => vec![0, 1],
        (_, false) => vec![0, 1],
        (_, true) => vec![0, 1, 2],
    }
}

// ------------------------------------------------------------------------------------ child

#[derive(Default)]
struct ChildAcc {
    executions: u64,
    points: u64,
    scenarios: u64,
    capped: u64,
    outcomes: BTreeMap<String, u64>,
    viols: BTreeMap<String, (u64, String, Vec<Value>)>,
    other_props: BTreeMap<String, u64>,
    nontrivial: u64,
    samples: Vec<Value>,
    max_bound_completed: BTreeMap<String, u32>,
}

fn outcome_signature(obs: &[Obs], outcome: &Outcome) -> String {
    let mut s = String::new();
    for o in obs {
        match o {
            Obs::TickEnd { changed, running, after, .. } => {
                s.push_str(&format!("T{}{}m{}c{};", *changed as u8, *running as u8, after.matches.len(), after.item_count));
            }
            Obs::Restart { clear, .. } => s.push_str(if *clear { "Rc;" } else { "Rk;" }),
            Obs::Quiescent { snap, .. } => s.push_str(&format!("Q{:?};", snap.matches.iter().map(|m| m.1).collect::<Vec<_>>())),
            Obs::HorizonExceeded { .. } => s.push_str("H;"),
            _ => {}
        }
    }
    if let Outcome::Deadlock { .. } = outcome {
        s.push_str("DEADLOCK");
    }
    s
}

fn static_prop(p: &str) -> &'static str {
    match p {
        "C06" => "C06",
        "C07" => "C07",
        "C09" => "C09",
        "C11" => "C11",
        "C12" => "C12",
        "C13" => "C13",
        "C19" => "C19",
        "C20" => "C20",
        _ => "C06",
    }
}

fn explore_scenario(prop: &str, scn: &Scenario, bound: u32, cap: u64, shard: usize, nshards: usize, acc: &mut ChildAcc) -> bool {
    let mut stop = false;
    let (ex, pts, capped) = explore(
        bound,
        cap,
        shard,
        nshards,
        |prefix| {
            let t0 = std::time::Instant::now();
            if let Ok(p) = std::env::var("E2_CURRENT_FILE") {
                // if the process dies on a signal, the parent reports this schedule
                let _ = std::fs::write(&p, serde_json::to_string(&json!({"scenario": scn.name, "scenario_spec": scn.to_json(), "schedule": prefix})).unwrap_or_default());
            }
            let rr = run_scenario(scn, prefix);
            if std::env::var("E2_DEBUG").is_ok() {
                eprintln!("[e2x] {:.2}ms prefix={:?} decisions={} outcome={}", t0.elapsed().as_secs_f64() * 1000.0, prefix, rr.trace.decisions.len(), match &rr.trace.outcome { Outcome::Completed => "ok", Outcome::Deadlock{..} => "deadlock", Outcome::Diverged(_) => "diverged" });
            }
            LAST.with(|l| *l.borrow_mut() = Some(rr.obs));
            rr.trace
        },
        |choices, trace| {
            let obs = LAST.with(|l| l.borrow_mut().take()).unwrap_or_default();
            let rr = crate::e2::RunResult {
                trace: crate::sched::Trace {
                    decisions: Vec::new(),
                    outcome: match &trace.outcome {
                        Outcome::Completed => Outcome::Completed,
                        Outcome::Deadlock { parked } => Outcome::Deadlock { parked: parked.clone() },
                        Outcome::Diverged(d) => Outcome::Diverged(d.clone()),
                    },
                    log: trace.log.clone(),
                    inactive_deref: trace.inactive_deref.clone(),
                    matcher_use: trace.matcher_use.clone(),
                },
                obs,
                config: nucleo::Config::DEFAULT,
            };
            let mut viols: Vec<Viol> = Vec::new();
            judge(scn, &rr, &mut viols);
            let sig = outcome_signature(&rr.obs, &rr.trace.outcome);
            *acc.outcomes.entry(sig).or_insert(0) += 1;
            let preempted = trace.decisions.iter().any(|d| d.sched && d.chosen > 0);
            if preempted {
                acc.nontrivial += 1;
            }
            if acc.samples.len() < 3 && preempted && trace.decisions.len() > 8 {
                acc.samples.push(json!({"scenario": scn.to_json(), "schedule": choices, "decisions": trace.decisions.iter().map(|d| d.what.clone()).collect::<Vec<_>>(),
                                         "events": rr.trace.log.iter().take(60).map(|e| format!("t{} T{} {} {}", e.t, e.tid, e.what, e.data)).collect::<Vec<_>>()}));
            }
            let mut deadlock = false;
            // a library call that panics inside a history the checked property quantifies over
            // does not deliver what the property promises for that history: attributed to it as well
            let extra: Vec<Viol> = viols
                .iter()
                .filter(|x| x.prop == "C06" && prop != "C06" && x.sig.starts_with("C06/library_call_panicked"))
                .map(|x| Viol { prop: static_prop(prop), sig: x.sig.replacen("C06/", &format!("{prop}/"), 1), what: x.what.clone() })
                .collect();
            viols.extend(extra);
            for vl in viols {
                if vl.prop == prop {
                    let e = acc.viols.entry(vl.sig.clone()).or_insert((0, vl.what.clone(), Vec::new()));
                    e.0 += 1;
                    if e.2.len() < 3 {
                        e.2.push(json!({"scenario": scn.name, "scenario_spec": scn.to_json(), "schedule": choices, "what": vl.what,
                                        "decisions": trace.decisions.iter().map(|d| d.what.clone()).collect::<Vec<_>>(),
                                        "events": rr.trace.log.iter().map(|e| format!("t{} T{} {} {}", e.t, e.tid, e.what, e.data)).collect::<Vec<_>>()}));
                    }
                } else {
                    *acc.other_props.entry(vl.sig.clone()).or_insert(0) += 1;
                }
            }
            if !matches!(rr.trace.outcome, Outcome::Completed) {
                deadlock = true;
            }
            if deadlock {
                // threads of this execution are leaked; do not explore below a deadlocked prefix
                stop = true;
                return false;
            }
            true
        },
    );
    acc.executions += ex;
    acc.points += pts;
    if capped {
        acc.capped += 1;
    }
    let _ = stop;
    !capped
}

thread_local! {
    static LAST: std::cell::RefCell<Option<Vec<Obs>>> = const { std::cell::RefCell::new(None) };
}

pub fn child(prop: &str, tier: &str, shard: usize, nshards: usize) -> ! {
    install_hooks();
    crate::dom::quiet_panics();
    let thorough = tier == "thorough";
    let scns = scenarios(prop, thorough);
    let mut bs = bounds(prop, thorough);
    if let Ok(b) = std::env::var("E2_BOUND") {
        bs = vec![b.parse().unwrap_or(0)];
    }
    let cap: u64 = if thorough { 400_000 } else { 60_000 };
    let mut acc = ChildAcc::default();
    // Few heavy scenarios: every child works on every scenario, on its share of the subtrees
    // below the root execution. Many light scenarios: the scenarios themselves are dealt out.
    let many = scns.len() >= 4 * nshards;
    let mut light_no = 0usize;
    let only = std::env::var("E2_ONLY").ok();
    for scn in scns.iter() {
        // development aid: restrict a run to the scenarios whose name starts with E2_ONLY
        if let Some(o) = &only {
            if !scn.name.starts_with(o.as_str()) {
                continue;
            }
        }
        // heavy scenarios (explored with preemptions, or with held writers and their many free
        // choices) are split by subtree over all children, light ones are dealt out whole
        let heavy = scn.bound >= 1 || scn.name.starts_with("H/") || !many;
        let (shard, nshards) = if heavy {
            (shard, nshards)
        } else {
            light_no += 1;
            if light_no % nshards != shard {
                continue;
            }
            (0, 1)
        };
        if shard == 0 {
            acc.scenarios += 1;
        }
        // iterative context bounding: only the largest bound is explored in full (it contains
        // the smaller ones); smaller bounds are run first on a violation-finding basis
        let top = if std::env::var("E2_BOUND").is_ok() { *bs.last().unwrap() } else { scn.bound };
        let t0 = std::time::Instant::now();
        let ex0 = acc.executions;
        let complete = explore_scenario(prop, scn, top, cap, shard, nshards, &mut acc);
        if std::env::var("E2_DEBUG").is_ok() {
            eprintln!("[e2] {} bound {} : {} executions in {:.1}s complete={}", scn.name, top, acc.executions - ex0, t0.elapsed().as_secs_f64(), complete);
        }
        let e = acc.max_bound_completed.entry(format!("{}", if complete { top } else { 0 })).or_insert(0);
        *e += 1;
    }
    let viols: Vec<Value> = acc
        .viols
        .iter()
        .map(|(sig, (n, what, ex))| json!({"sig": sig, "count": n, "what": what, "examples": ex}))
        .collect();
    println!(
        "{}",
        json!({"executions": acc.executions, "points": acc.points, "scenarios": acc.scenarios, "capped": acc.capped, "nontrivial": acc.nontrivial,
               "outcomes": acc.outcomes.len(), "outcome_sample": acc.outcomes.iter().take(6).map(|(k, v)| json!({"signature": k, "executions": v})).collect::<Vec<_>>(),
               "outcome_keys": acc.outcomes.keys().collect::<Vec<_>>(),
               "violations": viols, "other_props": acc.other_props, "samples": acc.samples, "bounds": acc.max_bound_completed})
    );
    std::process::exit(0)
}

// ------------------------------------------------------------------------------------ parent

pub fn parent(prop: &str, tier: &str) -> ! {
    let mut rep = Report::new(prop, tier);
    collect(prop, tier, &mut rep);
    rep.finish()
}

/// Fans the scenarios of `prop` out to child processes and merges what they found into `rep`.
pub fn collect(prop: &str, tier: &str, rep: &mut Report) {
    let thorough = rep.is_thorough();
    let n_scn = scenarios(prop, thorough).len();
    let _ = n_scn;
    let nshards = common::threads();
    let exe = std::env::current_exe().unwrap_or_else(|_| machinery_failure("current_exe"));
    let cur_dir = exe.parent().map(|p| p.to_path_buf()).unwrap_or_default().join("e2-current");
    let _ = std::fs::create_dir_all(&cur_dir);
    let cur_dir = &cur_dir;
    let outs: Vec<std::process::Output> = std::thread::scope(|s| {
        let hs: Vec<_> = (0..nshards)
            .map(|sh| {
                let exe = exe.clone();
                s.spawn(move || {
                    // one core per child: the threads of an execution are serialised anyway, and
                    // hand-overs between threads on the same core are much cheaper
                    let ncpu = std::thread::available_parallelism().map(|n| n.get()).unwrap_or(1);
                    let mut cmd = if std::path::Path::new("/usr/bin/taskset").exists() {
                        let mut c = std::process::Command::new("/usr/bin/taskset");
                        c.arg("-c").arg((sh % ncpu).to_string()).arg(&exe);
                        c
                    } else {
                        std::process::Command::new(&exe)
                    };
                    cmd
                        .env("E2_CURRENT_FILE", cur_dir.join(format!("current-{prop}-{sh}.json")))
                        .env("MALLOC_MMAP_THRESHOLD_", "8388608")
                        .env("MALLOC_TRIM_THRESHOLD_", "536870912")
                        .env("MALLOC_TOP_PAD_", "67108864")
                        .args(["e2-child", prop, tier, &sh.to_string(), &nshards.to_string()])
                        .output()
                        .unwrap_or_else(|_| machinery_failure("cannot spawn scheduler child"))
                })
            })
            .collect();
        hs.into_iter().map(|h| h.join().unwrap()).collect()
    });
    let mut outcome_keys: std::collections::BTreeSet<String> = Default::default();
    let mut other: BTreeMap<String, u64> = BTreeMap::new();
    let mut capped = 0u64;
    let mut scenarios_run = 0u64;
    for (sh, out) in outs.iter().enumerate() {
        let stdout = String::from_utf8_lossy(&out.stdout);
        let stderr = String::from_utf8_lossy(&out.stderr);
        if !out.status.success() {
            use std::os::unix::process::ExitStatusExt;
            if let Some(sig) = out.status.signal() {
                // the library crashed the process under the schedule recorded last
                let cur = std::fs::read_to_string(cur_dir.join(format!("current-{prop}-{sh}.json"))).unwrap_or_default();
                let cv: Value = serde_json::from_str(&cur).unwrap_or(Value::Null);
                rep.acc.violation(
                    &format!("{prop}/process_died_signal_{sig}"),
                    &format!("the process running the library under a schedule died with signal {sig} (memory unsafety)"),
                    || json!({"prop": prop, "tier": tier, "scenario": cv["scenario"], "schedule": cv["schedule"], "scenario_spec": cv["scenario_spec"], "signal": sig,
                              "note": "the recorded schedule is the prefix that was being executed; defaults after it"}),
                );
                rep.caps.push(format!("child {sh} died with signal {sig}; its remaining scenarios were not explored"));
                continue;
            }
            machinery_failure(&format!("scheduler child {sh} failed: {:?} {}", out.status, stderr.chars().rev().take(400).collect::<String>().chars().rev().collect::<String>() + &stdout.chars().rev().take(300).collect::<String>().chars().rev().collect::<String>()));
        }
        let v: Value = serde_json::from_str(stdout.lines().last().unwrap_or("")).unwrap_or_else(|_| machinery_failure("unparsable child output"));
        rep.acc.evaluations += v["executions"].as_u64().unwrap_or(0);
        rep.acc.states += v["executions"].as_u64().unwrap_or(0);
        rep.acc.traces += v["executions"].as_u64().unwrap_or(0);
        rep.acc.transitions += v["points"].as_u64().unwrap_or(0);
        rep.acc.nontrivial += v["nontrivial"].as_u64().unwrap_or(0);
        capped += v["capped"].as_u64().unwrap_or(0);
        scenarios_run += v["scenarios"].as_u64().unwrap_or(0);
        for k in v["outcome_keys"].as_array().cloned().unwrap_or_default() {
            outcome_keys.insert(k.as_str().unwrap_or("").to_owned());
        }
        for s in v["samples"].as_array().cloned().unwrap_or_default() {
            rep.acc.sample(|| s.clone());
        }
        for (k, n) in v["other_props"].as_object().cloned().unwrap_or_default() {
            *other.entry(k).or_insert(0) += n.as_u64().unwrap_or(0);
        }
        for vl in v["violations"].as_array().cloned().unwrap_or_default() {
            let sig = vl["sig"].as_str().unwrap_or("?").to_owned();
            let what = vl["what"].as_str().unwrap_or("").to_owned();
            let n = vl["count"].as_u64().unwrap_or(1);
            for (i, ex) in vl["examples"].as_array().cloned().unwrap_or_default().into_iter().enumerate() {
                let ex2 = json!({"prop": prop, "tier": tier, "scenario": ex["scenario"], "schedule": ex["schedule"], "scenario_spec": ex["scenario_spec"], "what": ex["what"], "decisions": ex["decisions"], "events": ex["events"]});
                rep.acc.violation(&sig, &what, || ex2);
                let _ = i;
            }
            if let Some(c) = rep.acc.violations.get_mut(&sig) {
                c.count = c.count.max(n);
            }
        }
    }
    for k in outcome_keys {
        rep.acc.outcome(&k);
    }
    if capped > 0 {
        rep.caps.push(format!("{capped} scenario explorations hit the per-scenario execution cap"));
    }
    rep.extra("scenarios", json!(scenarios_run));
    rep.extra("violations_of_other_properties_seen(reported by their own checks)", json!(other));
    rep.extra("child_processes", json!(nshards));
    let bs = bounds(prop, thorough);
    rep.bound = format!("preemption bound {} (all schedules with at most that many preemptions; yields at try-lock are free), {} scenarios", bs.last().unwrap(), scenarios_run);
    rep.exhaustive = capped == 0;
    rep.rule = "one execution = one complete run of the real threads under one schedule; non-trivial = the schedule deviates from the default (at least one switch away from the first enabled thread)".into();
    rep.assumptions = vec![
        "sequentially consistent interleavings at the instrumented points (weak-memory effects of the flags are outside this engine)".into(),
        "rayon/parking_lot are trusted to implement their documented semantics; a run's internal parallelism is one logical thread plus the order of in-flight reports (owned as an environment choice when the pool has 2 threads)".into(),
        "tick is always called with timeout 0: 'the worker finished within the timeout' is the scheduling choice to run the worker first".into(),
    ];
}

// ------------------------------------------------------------------------------------ replay

pub fn replay(prop: &str, file: &str) -> ! {
    install_hooks();
    let text = std::fs::read_to_string(file).unwrap_or_else(|_| machinery_failure("cannot read replay file"));
    let v: Value = serde_json::from_str(&text).unwrap_or_else(|_| machinery_failure("cannot parse replay file"));
    let mut failed = 0;
    for c in v["cases"].as_array().cloned().unwrap_or_default() {
        let name = c["scenario"].as_str().unwrap_or("");
        let choices: Vec<usize> = c["schedule"].as_array().map(|a| a.iter().map(|x| x.as_u64().unwrap_or(0) as usize).collect()).unwrap_or_default();
        let scn = scenarios(prop, false)
            .into_iter()
            .chain(scenarios(prop, true))
            .find(|s| s.name == name)
            .unwrap_or_else(|| machinery_failure(&format!("scenario {name} not found")));
        println!("scenario {name}: {}", scn.to_json());
        println!("schedule {choices:?}");
        let mut logs = Vec::new();
        let mut verdicts = Vec::new();
        for round in 0..2 {
            let rr = run_scenario(&scn, &choices);
            let mut viols = Vec::new();
            let deadlocked = !matches!(rr.trace.outcome, Outcome::Completed);
            judge(&scn, &rr, &mut viols);
            logs.push(rr.trace.log.iter().map(|e| format!("t{} T{} {} {}", e.t, e.tid, e.what, e.data)).collect::<Vec<_>>());
            verdicts.push(viols.iter().filter(|x| x.prop == prop).map(|x| format!("{}: {}", x.sig, x.what)).collect::<Vec<_>>());
            if round == 0 {
                for l in &logs[0] {
                    println!("   {l}");
                }
            }
            if deadlocked && round == 0 {
                // a second run in the same process is possible (threads are leaked, epoch-tagged)
            }
        }
        if logs[0] != logs[1] {
            machinery_failure("replay is not deterministic: the two runs of the schedule produced different event logs");
        }
        if verdicts[0].is_empty() {
            println!("  holds on the current tree");
        } else {
            failed += 1;
            for x in &verdicts[0] {
                println!("  VIOLATES {x}");
            }
        }
    }
    std::process::exit(if failed > 0 { 1 } else { 0 })
}


/// Child mode for the C09 check (the loom parent merges this): runs the scheduler scenarios and
/// prints what the C09 monitors found.
pub fn c09_e2_child(tier: &str) -> ! {
    let mut rep = Report::new("C09", tier);
    collect("C09", tier, &mut rep);
    let viols: Vec<Value> = rep
        .acc
        .violations
        .iter()
        .map(|(sig, c)| json!({"sig": sig, "what": c.what, "count": c.count, "examples": c.examples}))
        .collect();
    println!(
        "{}",
        json!({"executions": rep.acc.evaluations, "transitions": rep.acc.transitions, "nontrivial": rep.acc.nontrivial, "violations": viols, "bound": rep.bound, "caps": rep.caps})
    );
    std::process::exit(0)
}
