//! E2 — controlled scheduler over the real threads (CHESS-style, stateless, preemption-bounded).
//!
//! Every primitive stays real (parking_lot mutex, rayon pool, the lock-free vector); the threads
//! are only *serialised*: a logical thread runs while it holds the token and parks at every
//! instrumented point (`nucleo::verif::point`) or harness-level point. A monitor (the thread
//! driving the execution) waits until nobody runs, evaluates which parked threads are enabled,
//! takes the next decision from the schedule being explored and wakes exactly that thread.
//!
//! One execution at a time per process (the hook registry of the library is process-global);
//! scenarios are sharded over child processes by the caller.

use std::cell::Cell;
use std::collections::BTreeMap;
use std::sync::atomic::{AtomicU64, Ordering};
use std::sync::{Arc, Condvar, Mutex, RwLock};
use std::time::{Duration, Instant};

pub type Tid = usize;
pub const T_U: Tid = 0;
pub const T_WORKER0: Tid = 100;

/// How a parked thread becomes enabled.
#[derive(Clone, Copy, Debug, PartialEq, Eq)]
pub enum Wait {
    /// always enabled
    None,
    /// blocking acquisition of the worker mutex: enabled iff the mutex is free
    WorkerLock,
    /// enabled iff the notification counter exceeds the given value
    Notify(u64),
    /// enabled iff the given hand-over slot is filled
    Slot(usize),
    /// a yield: enabled, and switching away from it is not a preemption
    Yield,
    /// enabled iff every scripted injector thread has finished
    InjectorsDone,
}

#[derive(Clone, Debug)]
pub struct Parked {
    pub id: &'static str,
    pub data: u64,
    pub wait: Wait,
}

#[derive(Default)]
struct ThreadSt {
    parked: Option<Parked>,
    finished: bool,
    arrived: bool,
}

#[derive(Clone, Debug)]
pub struct Decision {
    /// number of alternatives at this decision
    pub n: usize,
    pub chosen: usize,
    /// true for scheduling decisions, false for environment choices
    pub sched: bool,
    /// choosing a non-zero alternative costs a preemption
    pub alt_is_preemption: bool,
    pub preemptions_before: u32,
    /// description for replays: enabled thread ids / choice name
    pub what: String,
}

struct St {
    running: Option<Tid>,
    granted: Option<Tid>,
    threads: BTreeMap<Tid, ThreadSt>,
    pending_spawn: u32,
    next_worker: Tid,
    notify_count: u64,
    slots: Vec<bool>,
    clock: u64,
    // schedule
    prefix: Vec<usize>,
    decisions: Vec<Decision>,
    preemptions: u32,
    last_running: Option<Tid>,
    diverged: Option<String>,
    // observations
    pub log: Vec<Event>,
    inactive_deref: Vec<u64>,
    matcher_use: Vec<(u64, std::thread::ThreadId)>,
    aborted: bool,
}

#[derive(Clone, Debug)]
pub struct Event {
    pub t: u64,
    pub tid: Tid,
    pub what: String,
    pub data: u64,
}

pub struct Exec {
    pub epoch: u64,
    st: Mutex<St>,
    cv: Condvar,
    pub fine_grained: bool,
    pub flag_points: bool,
    pub pool_threads: usize,
    probe: RwLock<Option<Arc<dyn Fn() -> bool + Send + Sync>>>,
    flag_addr: AtomicU64,
    cancel_addr: AtomicU64,
}

static EPOCH: AtomicU64 = AtomicU64::new(1);
static CURRENT: RwLock<Option<Arc<Exec>>> = RwLock::new(None);

thread_local! {
    static LOGICAL: Cell<(u64, Tid)> = const { Cell::new((0, usize::MAX)) };
}

pub fn current() -> Option<Arc<Exec>> {
    CURRENT.read().unwrap().clone()
}

fn my_tid(exec: &Exec) -> Option<Tid> {
    let (e, t) = LOGICAL.with(|l| l.get());
    if e == exec.epoch && t != usize::MAX {
        Some(t)
    } else {
        None
    }
}

/// Point ids of the library at which only the run's own (first) pool thread may be suspended and
/// only when the pool has a single thread (with helpers running concurrently the state would
/// not be frozen while others are scheduled).
const FINE_POINTS: [&str; 2] = ["run:scan_poll", "run:rescore_item"];
/// Points that only matter for the ordering of the notification flag against the worker's read.
const FLAG_POINTS: [&str; 5] = ["tick:enter", "tick:flag_cleared", "tick:try_lock_failed", "tick:rearmed", "tick:retry_lock"];

/// The source the scheduler's model of the lock operations is bound to (compiled in, so the
/// harness is rebuilt whenever it changes).
const LIB_RS: &str = include_str!("/repo/src/lib.rs");

/// Kind of lock operation that follows a hook point in the library source: the scheduler treats
/// a blocking acquisition as a blocking point (enabled only while the lock is free), a timed
/// try-lock as a yield (the thread may also go on while the lock is held: the attempt then fails)
/// and a plain try-lock as an ordinary step. Derived from the code rather than assumed, so a
/// change of the primitive behind a point changes the explored behaviours with it.
#[derive(Clone, Copy, PartialEq, Debug)]
pub enum LockKind {
    Blocking,
    TimedTry,
    Try,
}

pub fn lock_kind_after(src: &str, id: &str) -> Option<LockKind> {
    let needle = format!("verif::point(\"{id}\"");
    let at = src.find(&needle)?;
    for line in src[at..].lines().skip(1).take(8) {
        let l = line.trim();
        if l.starts_with("//") || l.starts_with("#[") {
            continue;
        }
        if l.contains("try_lock_arc_for(") || l.contains("try_lock_for(") {
            return Some(LockKind::TimedTry);
        }
        if l.contains("try_lock_arc()") || l.contains("try_lock()") {
            return Some(LockKind::Try);
        }
        if l.contains(".lock_arc()") || l.contains(".lock()") {
            return Some(LockKind::Blocking);
        }
    }
    None
}

pub fn lock_binding() -> &'static [(&'static str, LockKind); 4] {
    static B: std::sync::OnceLock<[(&'static str, LockKind); 4]> = std::sync::OnceLock::new();
    B.get_or_init(|| {
        let get = |id: &'static str| -> (&'static str, LockKind) {
            match lock_kind_after(LIB_RS, id) {
                Some(k) => (id, k),
                None => common::machinery_failure(&format!("cannot find the lock operation after hook point {id} in /repo/src/lib.rs")),
            }
        };
        [get("tick:lock"), get("tick:try_lock"), get("tick:retry_lock"), get("drop:lock")]
    })
}

/// Does the library under test have the hook point in front of `update_config`'s lock?
pub fn has_update_config_hook() -> bool {
    LIB_RS.contains("verif::point(\"update_config:lock\"")
}

fn wait_of(id: &'static str) -> Wait {
    match id {
        // `update_config` takes the worker lock with a blocking `lock()`
        "update_config:lock" => match lock_kind_after(LIB_RS, "update_config:lock") {
            Some(LockKind::TimedTry) => Wait::Yield,
            Some(LockKind::Try) => Wait::None,
            _ => Wait::WorkerLock,
        },
        // Drop waits a full second for the lock: blocking for every purpose of the model
        "drop:lock" => Wait::WorkerLock,
        "tick:lock" | "tick:try_lock" | "tick:retry_lock" => {
            let kind = lock_binding().iter().find(|(n, _)| *n == id).map(|x| x.1).unwrap_or(LockKind::Try);
            match kind {
                LockKind::Blocking => Wait::WorkerLock,
                LockKind::TimedTry => Wait::Yield,
                LockKind::Try => Wait::None,
            }
        }
        _ => Wait::None,
    }
}

/// Installs the process-global hooks of the library once.
pub fn install_hooks() {
    let hooks = nucleo::verif::Hooks {
        point: Box::new(|id, data| {
            let Some(exec) = current() else { return };
            exec.lib_point(id, data);
        }),
        choice: Box::new(|id, n| match current() {
            Some(exec) => exec.env_choice(id, n),
            None => 0,
        }),
    };
    nucleo::verif::set_hooks(Some(Arc::new(hooks)));
}

pub enum Outcome {
    Completed,
    Deadlock { parked: Vec<(Tid, String)> },
    Diverged(String),
}

pub struct Trace {
    pub decisions: Vec<Decision>,
    pub outcome: Outcome,
    pub log: Vec<Event>,
    pub inactive_deref: Vec<u64>,
    pub matcher_use: Vec<(u64, std::thread::ThreadId)>,
}

impl Exec {
    pub fn new(prefix: Vec<usize>, pool_threads: usize, slots: usize, fine: bool, flag_points: bool) -> Arc<Exec> {
        let fine_grained = pool_threads == 1 && fine;
        let epoch = EPOCH.fetch_add(1, Ordering::SeqCst);
        let exec = Arc::new(Exec {
            epoch,
            st: Mutex::new(St {
                running: None,
                granted: None,
                threads: BTreeMap::new(),
                pending_spawn: 0,
                next_worker: T_WORKER0,
                notify_count: 0,
                slots: vec![false; slots],
                clock: 0,
                prefix,
                decisions: Vec::new(),
                preemptions: 0,
                last_running: None,
                diverged: None,
                log: Vec::new(),
                inactive_deref: Vec::new(),
                matcher_use: Vec::new(),
                aborted: false,
            }),
            cv: Condvar::new(),
            flag_addr: AtomicU64::new(0),
            cancel_addr: AtomicU64::new(u64::MAX),
            fine_grained,
            flag_points,
            pool_threads,
            probe: RwLock::new(None),
        });
        *CURRENT.write().unwrap() = Some(exec.clone());
        exec
    }

    pub fn set_flag_addr(&self, a: u64) {
        self.flag_addr.store(a, Ordering::Relaxed);
    }

    pub fn set_cancel_addr(&self, a: u64) {
        self.cancel_addr.store(a, Ordering::Relaxed);
    }

    pub fn set_probe(&self, p: Arc<dyn Fn() -> bool + Send + Sync>) {
        *self.probe.write().unwrap() = Some(p);
    }

    fn worker_locked(&self) -> bool {
        self.probe.read().unwrap().as_ref().map_or(false, |p| p())
    }

    /// Registers a scripted thread; must be called by the monitor before the thread starts.
    pub fn register(&self, tid: Tid) {
        self.st.lock().unwrap().threads.insert(tid, ThreadSt::default());
    }

    /// Called by a scripted thread at its very beginning: binds the OS thread to the logical
    /// thread and parks until first scheduled.
    pub fn thread_start(&self, tid: Tid) {
        LOGICAL.with(|l| l.set((self.epoch, tid)));
        let mut st = self.st.lock().unwrap();
        st.threads.get_mut(&tid).unwrap().arrived = true;
        st.threads.get_mut(&tid).unwrap().parked = Some(Parked {
            id: "thread:start",
            data: 0,
            wait: Wait::None,
        });
        self.cv.notify_all();
        self.wait_grant(st, tid);
    }

    pub fn thread_finish(&self, tid: Tid) {
        let mut st = self.st.lock().unwrap();
        let t = st.threads.get_mut(&tid).unwrap();
        t.finished = true;
        t.parked = None;
        if st.running == Some(tid) {
            st.running = None;
        }
        self.cv.notify_all();
    }

    fn wait_grant<'a>(&'a self, mut st: std::sync::MutexGuard<'a, St>, tid: Tid) {
        loop {
            if st.aborted {
                // the execution was abandoned (deadlock or divergence): stay parked for ever
                drop(st);
                loop {
                    std::thread::park();
                }
            }
            if st.granted == Some(tid) {
                st.granted = None;
                st.running = Some(tid);
                st.threads.get_mut(&tid).unwrap().parked = None;
                return;
            }
            st = self.cv.wait(st).unwrap();
        }
    }

    /// A scheduling point reached by the calling logical thread.
    pub fn park(&self, tid: Tid, id: &'static str, data: u64, wait: Wait) {
        let mut st = self.st.lock().unwrap();
        st.clock += 1;
        let t = st.clock;
        st.log.push(Event {
            t,
            tid,
            what: format!("@{id}"),
            data,
        });
        st.threads.get_mut(&tid).unwrap().parked = Some(Parked { id, data, wait });
        if st.running == Some(tid) {
            st.running = None;
        }
        self.cv.notify_all();
        self.wait_grant(st, tid);
    }

    /// Harness-level point of the calling (registered) thread.
    pub fn point(&self, id: &'static str, data: u64, wait: Wait) {
        let tid = my_tid(self).expect("harness point on an unregistered thread");
        self.park(tid, id, data, wait);
    }

    pub fn me(&self) -> Tid {
        my_tid(self).unwrap_or(usize::MAX)
    }

    fn lib_point(&self, id: &'static str, data: u64) {
        // accesses to the library's flags (cancel flag, notification flag): only those to the
        // notification flag are scheduling points, and only in scenarios about the wake-up protocol
        if id == "atomic:loaded" || id == "atomic:stored" {
            // the point right after an access to the notification flag (wake-up scenarios only)
            if self.flag_points && data == self.flag_addr.load(Ordering::Relaxed) {
                if let Some(tid) = my_tid(self) {
                    self.park(tid, if id == "atomic:loaded" { "flag:loaded" } else { "flag:stored" }, 0, Wait::None);
                }
            }
            return;
        }
        if id == "atomic:load" || id == "atomic:store" {
            // stores to the cancel flag (tick, restart, before a spawn) are scheduling points in
            // every scenario; its loads sit in the worker's per-item loops and are not
            if id == "atomic:store" && data == self.cancel_addr.load(Ordering::Relaxed) {
                if let Some(tid) = my_tid(self) {
                    self.park(tid, "cancel:store", 0, Wait::None);
                }
                return;
            }
            if !self.flag_points || data != self.flag_addr.load(Ordering::Relaxed) {
                return;
            }
            let Some(tid) = my_tid(self) else {
                return;
            };
            self.park(tid, if id == "atomic:load" { "flag:load" } else { "flag:store" }, 0, Wait::None);
            return;
        }
        // monitor-only points never suspend
        if id == "matchers:get" {
            return;
        }
        if id == "matchers:use" {
            // address of the scratch a scoring call of a pool thread really uses (the harness's
            // own reference computations run on non-pool threads and are not recorded)
            if rayon::current_thread_index().is_some() {
                let mut st = self.st.lock().unwrap();
                st.matcher_use.push((data, std::thread::current().id()));
            }
            return;
        }
        if id == "boxcar:get_unchecked_inactive" {
            let mut st = self.st.lock().unwrap();
            st.inactive_deref.push(data);
            return;
        }
        if id == "run:start" {
            // a pool thread starts a background run: it becomes a new logical thread
            let mut st = self.st.lock().unwrap();
            if st.aborted {
                drop(st);
                loop {
                    std::thread::park();
                }
            }
            let tid = st.next_worker;
            st.next_worker += 1;
            LOGICAL.with(|l| l.set((self.epoch, tid)));
            st.threads.insert(
                tid,
                ThreadSt {
                    parked: Some(Parked {
                        id,
                        data,
                        wait: Wait::None,
                    }),
                    finished: false,
                    arrived: true,
                },
            );
            if st.pending_spawn == 0 {
                st.diverged = Some("a background run started that no tick announced".into());
            } else {
                st.pending_spawn -= 1;
            }
            // (not logged at arrival: the arrival races with the spawning thread's own log entries;
            // the run's first log entry is written when it is first scheduled)
            self.cv.notify_all();
            self.wait_grant(st, tid);
            self.log("@run:start".into(), data);
            return;
        }
        let Some(tid) = my_tid(self) else {
            return; // helper pool thread or a thread of an abandoned execution
        };
        if FINE_POINTS.contains(&id) && !self.fine_grained {
            return;
        }
        if FLAG_POINTS.contains(&id) && !self.flag_points {
            return;
        }
        if id == "tick:before_spawn" {
            // the run is spawned right after this point; announce it when we are resumed
            self.park(tid, id, data, Wait::None);
            self.st.lock().unwrap().pending_spawn += 1;
            return;
        }
        self.park(tid, id, data, wait_of(id));
    }

    fn env_choice(&self, id: &'static str, n: usize) -> usize {
        // the order in which pool threads report in-flight items can only vary when the pool
        // has more than one thread
        if self.pool_threads < 2 {
            return 0;
        }
        let mut st = self.st.lock().unwrap();
        let i = st.decisions.len();
        let chosen = if i < st.prefix.len() { st.prefix[i] } else { 0 };
        if chosen >= n {
            st.diverged = Some(format!("replayed environment choice {chosen} out of range {n} at {id}"));
            return 0;
        }
        let p = st.preemptions;
        st.decisions.push(Decision {
            n,
            chosen,
            sched: false,
            alt_is_preemption: false,
            preemptions_before: p,
            what: format!("env:{id}"),
        });
        chosen
    }

    /// Logs an observation on behalf of the calling thread (totally ordered with the points).
    pub fn log(&self, what: String, data: u64) -> u64 {
        let tid = self.me();
        let mut st = self.st.lock().unwrap();
        st.clock += 1;
        let t = st.clock;
        st.log.push(Event { t, tid, what, data });
        t
    }

    pub fn notify(&self) {
        let tid = self.me();
        let mut st = self.st.lock().unwrap();
        st.notify_count += 1;
        st.clock += 1;
        let t = st.clock;
        let n = st.notify_count;
        st.log.push(Event {
            t,
            tid,
            what: "notify".into(),
            data: n,
        });
    }

    pub fn notify_count(&self) -> u64 {
        self.st.lock().unwrap().notify_count
    }

    pub fn fill_slot(&self, slot: usize) {
        self.st.lock().unwrap().slots[slot] = true;
    }

    pub fn now(&self) -> u64 {
        self.st.lock().unwrap().clock
    }

    /// The monitor: drives the execution until every *scripted* thread (tid < T_WORKER0) has
    /// finished, a deadlock is found or the replayed prefix diverges.
    pub fn drive(&self) -> Trace {
        let deadline = Duration::from_secs(10);
        let outcome;
        'outer: loop {
            // wait until nobody runs and every announced thread has arrived
            let start = Instant::now();
            let mut st = self.st.lock().unwrap();
            loop {
                let all_arrived = st.threads.values().all(|t| t.arrived || t.finished);
                // an announced run can only start once a pool thread is free: runs that have
                // not exited yet occupy one thread each
                let live_workers = st.threads.iter().filter(|(&t, ts)| t >= T_WORKER0 && !ts.finished).count();
                let arrival_due = st.pending_spawn > 0 && live_workers < self.pool_threads;
                if st.running.is_none() && !arrival_due && all_arrived && st.granted.is_none() {
                    break;
                }
                if start.elapsed() > deadline {
                    let what = format!(
                        "scheduler time-out: running={:?} pending_spawn={} granted={:?}",
                        st.running, st.pending_spawn, st.granted
                    );
                    st.aborted = true;
                    common::machinery_failure(&what);
                }
                let (g, _) = self.cv.wait_timeout(st, Duration::from_millis(50)).unwrap();
                st = g;
            }
            if let Some(d) = st.diverged.take() {
                st.aborted = true;
                outcome = Outcome::Diverged(d);
                break 'outer;
            }
            let scripted_done = st.threads.iter().filter(|(&t, _)| t < T_WORKER0).all(|(_, t)| t.finished);
            let workers_done = st.threads.iter().filter(|(&t, _)| t >= T_WORKER0).all(|(_, t)| t.finished) && st.pending_spawn == 0;
            if scripted_done && workers_done {
                outcome = Outcome::Completed;
                break 'outer;
            }
            // enabled threads in canonical order: the last running thread first (if enabled)
            drop(st);
            let locked = self.worker_locked();
            let mut st = self.st.lock().unwrap();
            let mut enabled: Vec<Tid> = Vec::new();
            for (&tid, t) in st.threads.iter() {
                if t.finished {
                    continue;
                }
                let Some(p) = &t.parked else { continue };
                let ok = match p.wait {
                    Wait::None | Wait::Yield => true,
                    Wait::WorkerLock => !locked,
                    Wait::Notify(seen) => st.notify_count > seen,
                    Wait::Slot(s) => st.slots[s],
                    Wait::InjectorsDone => st.threads.iter().filter(|(&t, _)| t > T_U && t < T_WORKER0).all(|(_, t)| t.finished),
                };
                if ok {
                    enabled.push(tid);
                }
            }
            if enabled.is_empty() {
                let parked = st
                    .threads
                    .iter()
                    .filter(|(_, t)| !t.finished)
                    .map(|(&tid, t)| (tid, t.parked.as_ref().map_or("?".to_owned(), |p| format!("{} ({:?})", p.id, p.wait))))
                    .collect();
                st.aborted = true;
                outcome = Outcome::Deadlock { parked };
                break 'outer;
            }
            let mut running_first = false;
            let mut free_switch = true;
            if let Some(last) = st.last_running {
                if let Some(pos) = enabled.iter().position(|&t| t == last) {
                    let w = st.threads[&last].parked.as_ref().map(|p| p.wait);
                    enabled.remove(pos);
                    if matches!(w, Some(Wait::Yield)) {
                        // fair scheduling: a yielding thread gets the lowest priority; every
                        // alternative (including continuing it) is free
                        enabled.push(last);
                    } else {
                        enabled.insert(0, last);
                        running_first = true;
                        free_switch = false;
                    }
                }
            }
            let i = st.decisions.len();
            let chosen = if i < st.prefix.len() { st.prefix[i] } else { 0 };
            if chosen >= enabled.len() {
                st.aborted = true;
                outcome = Outcome::Diverged(format!("replayed choice {chosen} but only {} threads are enabled at decision {i}", enabled.len()));
                break 'outer;
            }
            let alt_is_preemption = running_first && !free_switch;
            let p = st.preemptions;
            if chosen > 0 && alt_is_preemption {
                st.preemptions += 1;
            }
            let what = format!(
                "{:?}@{}",
                enabled,
                enabled
                    .iter()
                    .map(|t| st.threads[t].parked.as_ref().map_or("?", |p| p.id))
                    .collect::<Vec<_>>()
                    .join(",")
            );
            st.decisions.push(Decision {
                n: enabled.len(),
                chosen,
                sched: true,
                alt_is_preemption,
                preemptions_before: p,
                what,
            });
            let tid = enabled[chosen];
            st.last_running = Some(tid);
            let terminal = st.threads[&tid].parked.as_ref().map_or(false, |p| p.id == "run:exit");
            st.granted = Some(tid);
            if terminal {
                // the run returns without reaching another point: it is finished once the
                // worker mutex has been released
                st.threads.get_mut(&tid).unwrap().finished = true;
            }
            self.cv.notify_all();
            drop(st);
            if terminal {
                // nothing observable follows the terminal point: once the run has taken the
                // token it only returns to the pool
                let start = Instant::now();
                loop {
                    {
                        let mut st = self.st.lock().unwrap();
                        if st.granted.is_none() && st.running == Some(tid) {
                            st.running = None;
                            break;
                        }
                    }
                    if start.elapsed() > deadline {
                        common::machinery_failure("scheduler time-out waiting for a finished run to take its last grant");
                    }
                    std::thread::yield_now();
                }
            }
        }
        // break the reference cycle Exec -> probe -> worker -> notify callback -> Exec
        *self.probe.write().unwrap() = None;
        let mut st = self.st.lock().unwrap();
        *CURRENT.write().unwrap() = None;
        Trace {
            decisions: std::mem::take(&mut st.decisions),
            outcome,
            log: std::mem::take(&mut st.log),
            inactive_deref: std::mem::take(&mut st.inactive_deref),
            matcher_use: std::mem::take(&mut st.matcher_use),
        }
    }
}

/// Stateless depth-first exploration with a preemption bound (iterative context bounding is done
/// by the caller raising `bound`). `run` executes one schedule prefix (defaults afterwards) and
/// returns its trace; `visit` judges it. Returns (executions, decision points, capped?).
pub fn explore(
    bound: u32,
    max_executions: u64,
    shard: usize,
    nshards: usize,
    mut run: impl FnMut(&[usize]) -> Trace,
    mut visit: impl FnMut(&[usize], &Trace) -> bool,
) -> (u64, u64, bool) {
    // The subtrees below the root execution are dealt round-robin to the shards; every shard
    // re-runs the root (deterministic) to learn them, shard 0 also judges and counts it.
    let mut stack: Vec<Vec<usize>> = vec![Vec::new()];
    let mut executions = 0u64;
    let mut points = 0u64;
    let mut root = true;
    while let Some(prefix) = stack.pop() {
        if executions >= max_executions {
            return (executions, points, true);
        }
        let trace = run(&prefix);
        let choices: Vec<usize> = trace.decisions.iter().map(|d| d.chosen).collect();
        let counted = !root || shard == 0;
        let mut go_on = true;
        if counted {
            executions += 1;
            points += trace.decisions.len() as u64;
            go_on = visit(&choices, &trace);
        } else if !matches!(trace.outcome, Outcome::Completed) {
            go_on = false;
        }
        if !go_on {
            root = false;
            continue;
        }
        let mut k = 0usize;
        for i in (prefix.len()..trace.decisions.len()).rev() {
            let d = &trace.decisions[i];
            for alt in (1..d.n).rev() {
                let cost = d.preemptions_before + if d.alt_is_preemption { 1 } else { 0 };
                if cost > bound {
                    continue;
                }
                k += 1;
                if root && k % nshards != shard {
                    continue;
                }
                let mut p = choices[..i].to_vec();
                p.push(alt);
                stack.push(p);
            }
        }
        root = false;
    }
    (executions, points, false)
}
