//! C10 — the matcher is total, memory-safe and independent of its call history.
//! (a) totality: every entry point on the bounded domains and the large-shape families, built
//!     with overflow checks and debug assertions, panics are violations;
//! (b) extents: for EVERY (haystack_len, needle_len) the real `MatrixSlab::alloc` accepts (and
//!     a margin it must reject), the five views lie inside the slab, aligned and disjoint;
//! (c) history independence: every call sequence up to a depth over a pool of calls on one
//!     shared matcher gives the result of a fresh matcher.

use std::panic::{catch_unwind, AssertUnwindSafe};

use common::{json, par_shards, show, threads, Acc, Report, Value};
use nucleo_matcher::Matcher;

use crate::algos::{call_indices, call_match, rep_tag, Algo, Text, ALGOS};
use crate::big::big_cases;
use crate::dom::{self, panic_msg, Case, Ctx, Domain, ASCII7};
use crate::refm::Cfg;

fn totality_case(case: &Case<'_>, ctx: &mut Ctx, acc: &mut Acc) {
    acc.states += 1;
    for &algo in &ALGOS {
        for &ha in case.hay.reps() {
            for &na in case.needle.reps() {
                let hv = case.hay.view(ha);
                let nv = case.needle.view(na);
                for variant in 0..2 {
                    acc.transitions += 1;
                    let r = catch_unwind(AssertUnwindSafe(|| {
                        if variant == 0 {
                            call_match(&mut ctx.matcher, algo, hv, nv)
                        } else {
                            ctx.idx.clear();
                            call_indices(&mut ctx.matcher, algo, hv, nv, &mut ctx.idx)
                        }
                    }));
                    if let Err(p) = r {
                        let msg = panic_msg(&p);
                        let class = if msg.contains("overflow") { "arithmetic_overflow" } else { "panic" };
                        ctx.matcher = Matcher::new(case.cfg.to_config());
                        acc.violation(
                            &format!("C10/totality/{}{}/{}", algo.name(), if variant == 0 { "_match" } else { "_indices" }, class),
                            &format!("{} panicked: {}", algo.name(), msg),
                            || {
                                let mut v = case.to_json();
                                v["rep"] = json!(rep_tag(ha, na));
                                v
                            },
                        );
                    }
                }
            }
        }
    }
}

fn big_totality(thorough: bool) -> Acc {
    let cases = big_cases(thorough);
    par_shards(cases.len(), threads(), |i, acc| {
        let bc = &cases[i];
        let hay = Text::new(&bc.hay);
        let needle = Text::new(&bc.needle);
        let mut m = Matcher::new(bc.cfg.to_config());
        let mut idx = Vec::new();
        acc.evaluations += 1;
        acc.states += 1;
        acc.nontrivial += 1;
        acc.outcome(bc.family);
        for &algo in &ALGOS {
            for &ha in hay.reps() {
                for &na in needle.reps() {
                    for variant in 0..2 {
                        acc.transitions += 1;
                        let r = catch_unwind(AssertUnwindSafe(|| {
                            if variant == 0 {
                                call_match(&mut m, algo, hay.view(ha), needle.view(na))
                            } else {
                                idx.clear();
                                call_indices(&mut m, algo, hay.view(ha), needle.view(na), &mut idx)
                            }
                        }));
                        if let Err(p) = r {
                            let msg = panic_msg(&p);
                            let class = if msg.contains("overflow") { "arithmetic_overflow" } else { "panic" };
                            m = Matcher::new(bc.cfg.to_config());
                            acc.violation(
                                &format!("C10/totality-large/{}{}/{}", algo.name(), if variant == 0 { "_match" } else { "_indices" }, class),
                                &format!("{} panicked on a large input: {}", algo.name(), msg),
                                || json!({"family": bc.family, "cfg": bc.cfg.tag(), "haystack_len": bc.hay.len(), "needle_len": bc.needle.len(),
                                          "haystack_head": show(&bc.hay[..bc.hay.len().min(12)]), "needle_head": show(&bc.needle[..bc.needle.len().min(12)]), "rep": rep_tag(ha, na)}),
                            );
                        }
                    }
                }
            }
        }
    })
}

// ------------------------------------------------------------------------------------ extents

const H_MAX: usize = 70_000;
const CELL_MARGIN: usize = 110_000;
const N_MAX: usize = 2_100;

fn check_extents(
    acc: &mut Acc,
    kind: &str,
    h: usize,
    n: usize,
    elem: usize,
    r: Option<(usize, [(isize, usize, usize); 5])>,
) {
    acc.evaluations += 1;
    acc.transitions += 1;
    let Some((slab, views)) = r else {
        acc.count("alloc_refused", 1);
        return;
    };
    acc.states += 1;
    acc.count("alloc_accepted", 1);
    let names = ["haystack", "bonus", "row_offs", "current_row", "matrix_cells"];
    let expect_len = [h * elem, h, n * 2, (h + 1 - n) * 8, (h + 1 - n) * n];
    let mut spans: Vec<(isize, isize, &str)> = Vec::new();
    for (k, &(off, bytes, align)) in views.iter().enumerate() {
        let end = off + bytes as isize;
        let why = if off < 0 || end > slab as isize {
            Some("outside_slab")
        } else if off as usize % align != 0 {
            Some("misaligned")
        } else if bytes < expect_len[k] {
            Some("too_small")
        } else {
            None
        };
        if let Some(why) = why {
            acc.violation(
                &format!("C10/extents/{kind}/{}/{}", names[k], why),
                &format!("the {} view of the scratch slab is {}", names[k], why),
                || json!({"char_type": kind, "haystack_len": h, "needle_len": n, "slab_bytes": slab, "view": names[k], "offset": off, "bytes": bytes, "align": align, "needed_bytes": expect_len[k]}),
            );
        }
        spans.push((off, end, names[k]));
    }
    for a in 0..5 {
        for b in a + 1..5 {
            let (s1, e1, n1) = spans[a];
            let (s2, e2, n2) = spans[b];
            if s1 < e2 && s2 < e1 && e1 > s1 && e2 > s2 {
                acc.violation(
                    &format!("C10/extents/{kind}/overlap/{n1}-{n2}"),
                    "two views of the scratch slab overlap",
                    || json!({"char_type": kind, "haystack_len": h, "needle_len": n, "views": [n1, n2], "spans": [[s1, e1], [s2, e2]]}),
                );
            }
        }
    }
}

fn extents() -> Acc {
    // every (h, n) with 1 <= n <= h <= H_MAX, n <= N_MAX and h*n <= CELL_MARGIN: contains the
    // complete accepted domain (h*n <= 102400, h <= 65535, n <= 2048) plus a rejected margin.
    let chunk = 64usize;
    let shards = (H_MAX + chunk) / chunk;
    par_shards(shards, threads(), |shard, acc| {
        let mut m = Matcher::default();
        let uni: Vec<char> = vec!['a'; H_MAX + 1];
        let asc: Vec<u8> = vec![b'a'; H_MAX + 1];
        for h in shard * chunk..((shard + 1) * chunk).min(H_MAX + 1) {
            if h == 0 {
                continue;
            }
            let nmax = h.min(N_MAX).min(CELL_MARGIN / h);
            for n in 1..=nmax {
                let r = catch_unwind(AssertUnwindSafe(|| m.verif_alloc_extents_unicode(&uni[..h], n)));
                match r {
                    Ok(r) => check_extents(acc, "char", h, n, 4, r),
                    Err(p) => acc.violation("C10/extents/char/panic", &format!("alloc panicked: {}", panic_msg(&p)), || json!({"haystack_len": h, "needle_len": n})),
                }
                let r = catch_unwind(AssertUnwindSafe(|| m.verif_alloc_extents_ascii(&asc[..h], n)));
                match r {
                    Ok(r) => check_extents(acc, "ascii", h, n, 1, r),
                    Err(p) => acc.violation("C10/extents/ascii/panic", &format!("alloc panicked: {}", panic_msg(&p)), || json!({"haystack_len": h, "needle_len": n})),
                }
                if n == nmax && (h % 4999 == 0) {
                    acc.sample(|| json!({"haystack_len": h, "needle_len": n, "kind": "extent check of the real MatrixSlab::alloc"}));
                }
            }
        }
    })
}

// ------------------------------------------------------------------------ history independence

#[derive(Clone)]
struct Call {
    algo: Algo,
    indices: bool,
    cfg: Cfg,
    hay: usize,
    needle: usize,
    hay_ascii: bool,
    needle_ascii: bool,
}

fn history_pool() -> (Vec<Text>, Vec<Text>, Vec<Call>) {
    let long: String = "foo/bar_Baz-qux ".repeat(20);
    let hays: Vec<Text> = [
        "ab-Ab1 ab/ba",
        "  xaxbxc",
        "aaaaabbbbb",
        "ÄäbσςA b",
        long.as_str(),
        "a",
        "",
    ]
    .iter()
    .map(|s| Text::new(&s.chars().collect::<Vec<_>>()))
    .collect();
    let needles: Vec<Text> = ["ab", "abc", "b1", "aab", "σa", "xyz", "", "a", "fbq", "ab/ba", "o/b"]
        .iter()
        .map(|s| Text::new(&s.chars().collect::<Vec<_>>()))
        .collect();
    let cfgs = [
        Cfg { ignore_case: true, normalize: true, paths: false, prefer_prefix: false },
        Cfg { ignore_case: false, normalize: false, paths: true, prefer_prefix: false },
        Cfg { ignore_case: true, normalize: true, paths: false, prefer_prefix: true },
    ];
    let mut calls = Vec::new();
    let mut k = 0usize;
    // deterministic spread over the product space: a fixed stride walk, 40 entries
    let total = ALGOS.len() * 2 * cfgs.len() * hays.len() * needles.len();
    let mut pos = 0usize;
    let (mut n_match, mut n_reject) = (0, 0);
    while calls.len() < 40 {
        pos = (pos + 37) % total;
        let mut x = pos;
        let algo = ALGOS[x % ALGOS.len()];
        x /= ALGOS.len();
        let indices = x % 2 == 1;
        x /= 2;
        let cfg = cfgs[x % cfgs.len()];
        x /= cfgs.len();
        let hay = x % hays.len();
        x /= hays.len();
        let needle = x % needles.len();
        k += 1;
        let hay_ascii = hays[hay].bytes.is_some() && k % 3 != 0;
        let needle_ascii = needles[needle].bytes.is_some() && (k % 5 != 0 || hay_ascii);
        let call = Call { algo, indices, cfg, hay, needle, hay_ascii, needle_ascii };
        // 28 calls that match (they leave residues in the slab) and 12 that are rejected
        let matches = do_call(&mut Matcher::default(), &call, &hays, &needles, &mut Vec::new()).0.is_some();
        if matches && n_match < 28 {
            n_match += 1;
            calls.push(call);
        } else if !matches && n_reject < 12 {
            n_reject += 1;
            calls.push(call);
        }
    }
    (hays, needles, calls)
}

fn do_call(m: &mut Matcher, c: &Call, hays: &[Text], needles: &[Text], idx: &mut Vec<u32>) -> (Option<u16>, Vec<u32>) {
    m.config = c.cfg.to_config();
    idx.clear();
    let h = hays[c.hay].view(c.hay_ascii);
    let n = needles[c.needle].view(c.needle_ascii);
    let s = if c.indices {
        call_indices(m, c.algo, h, n, idx)
    } else {
        call_match(m, c.algo, h, n)
    };
    (s, idx.clone())
}

fn describe_call(c: &Call, hays: &[Text], needles: &[Text]) -> Value {
    json!({"algo": c.algo.name(), "indices": c.indices, "cfg": c.cfg.tag(), "haystack": hays[c.hay].chars.iter().collect::<String>(),
           "needle": needles[c.needle].chars.iter().collect::<String>(), "rep": rep_tag(c.hay_ascii, c.needle_ascii)})
}

fn history(depth: usize) -> Acc {
    let (hays, needles, calls) = history_pool();
    let fresh: Vec<(Option<u16>, Vec<u32>)> = calls
        .iter()
        .map(|c| do_call(&mut Matcher::default(), c, &hays, &needles, &mut Vec::new()))
        .collect();
    let k = calls.len();
    let total = dom::count_strings(k, depth) - 1; // non-empty sequences
    let chunk = 256u64;
    let shards = ((total + chunk - 1) / chunk) as usize;
    par_shards(shards, threads(), |shard, acc| {
        let mut seq: Vec<usize> = Vec::new();
        let mut idx = Vec::new();
        let lo = shard as u64 * chunk;
        for si in lo..(lo + chunk).min(total) {
            // decode sequence number si+1 (skip the empty sequence)
            let mut i = si + 1;
            let mut len = 0;
            let mut p = 1u64;
            while i >= p {
                i -= p;
                p *= k as u64;
                len += 1;
            }
            seq.clear();
            seq.resize(len, 0);
            for pos in (0..len).rev() {
                seq[pos] = (i % k as u64) as usize;
                i /= k as u64;
            }
            acc.evaluations += 1;
            acc.states += 1;
            if len >= 2 {
                acc.nontrivial += 1;
            }
            let mut shared = Matcher::default();
            let mut last = (None, Vec::new());
            for &ci in &seq {
                acc.transitions += 1;
                last = do_call(&mut shared, &calls[ci], &hays, &needles, &mut idx);
            }
            let want = &fresh[*seq.last().unwrap()];
            if &last != want {
                acc.violation("C10/history_dependence", "a matcher that served earlier calls returns something else than a fresh matcher", || {
                    json!({"calls": seq.iter().map(|&c| describe_call(&calls[c], &hays, &needles)).collect::<Vec<_>>(),
                           "shared_matcher_result": {"score": last.0, "indices": last.1}, "fresh_matcher_result": {"score": want.0, "indices": want.1}})
                });
            }
            if len == 3 && si % 7919 == 0 {
                acc.sample(|| json!({"calls": seq.iter().map(|&c| describe_call(&calls[c], &hays, &needles)).collect::<Vec<_>>(), "result": {"score": last.0, "indices": last.1}}));
            }
            acc.outcome(if last.0.is_some() { "last_call_matches" } else { "last_call_rejects" });
        }
    })
}

// ------------------------------------------------------------------------ poisoned scratch

const POISON: [u8; 6] = [0x01, 0x02, 0x03, 0x10, 0x7f, 0xff];

/// A matcher may only read scratch cells the current call has written. Instead of hoping that
/// some earlier call leaves a harmful residue at the right offset, the whole slab is overwritten
/// (cfg-gated accessor) with each of several byte patterns before the call; the result must be
/// the result of a fresh (zeroed) matcher.
fn poisoned(thorough: bool) -> Acc {
    // (1) structured calls: long gaps, periodic text, long haystacks
    let mut texts: Vec<(Vec<char>, Vec<char>)> = Vec::new();
    for g in [0usize, 1, 5, 13, 14, 15, 20, 33, 34, 35, 40, 70] {
        let xs: Vec<char> = vec!['x'; g];
        let mk = |parts: &[&[char]]| -> Vec<char> { parts.iter().flat_map(|p| p.iter().copied()).collect() };
        texts.push((mk(&[&['x', 'a'], &xs, &['b']]), vec!['a', 'b']));
        texts.push((mk(&[&['a'], &xs, &['b'], &xs, &['c', 'x']]), vec!['a', 'b', 'c']));
        texts.push((mk(&[&[' ', 'a', 'b'], &xs, &['c']]), vec!['a', 'b', 'c']));
        texts.push((mk(&[&['a'], &xs, &['b', 'c'], &xs]), vec!['a', 'c']));
    }
    let periodic: Vec<char> = "ab-Ab1 c/ba_".chars().cycle().take(300).collect();
    texts.push((periodic.clone(), vec!['a', 'b', 'c']));
    texts.push((periodic[..40].to_vec(), vec!['b', '1', 'c', 'a']));
    texts.push(("ÄäbσςA b".chars().collect(), vec!['a', 'b']));
    let cfgs = [
        Cfg { ignore_case: true, normalize: true, paths: false, prefer_prefix: false },
        Cfg { ignore_case: false, normalize: true, paths: true, prefer_prefix: true },
    ];
    let n_struct = texts.len();
    // (2) a complete small domain
    let dom = Domain::new("ascii5", crate::dom::ASCII5, if thorough { 6 } else { 5 }, 3, cfgs.to_vec());
    let nh = dom.haystacks();
    let chunk = 64u64;
    let shards = ((nh + chunk - 1) / chunk) as usize + 1;
    par_shards(shards, threads(), |shard, acc| {
        let mut fresh = Matcher::default();
        let mut dirty = Matcher::default();
        let mut idx = Vec::new();
        let mut idx2 = Vec::new();
        let mut judge = |hay: &Text, needle: &Text, cfg: Cfg, algos: &[Algo], bytes: &[u8], acc: &mut Acc| {
            for &algo in algos {
                for &ha in hay.reps() {
                    for &na in needle.reps() {
                        for variant in 0..2 {
                            fresh = Matcher::new(cfg.to_config());
                            idx.clear();
                            let want = catch_unwind(AssertUnwindSafe(|| {
                                if variant == 0 {
                                    call_match(&mut fresh, algo, hay.view(ha), needle.view(na))
                                } else {
                                    call_indices(&mut fresh, algo, hay.view(ha), needle.view(na), &mut idx)
                                }
                            }));
                            let want = match want {
                                Ok(w) => w,
                                Err(_) => {
                                    acc.violation(
                                        &format!("C10/panic_on_fresh_matcher/{}{}", algo.name(), if variant == 0 { "_match" } else { "_indices" }),
                                        "a call on a freshly created matcher panicked",
                                        || json!({"cfg": cfg.tag(), "haystack": show(&hay.chars), "needle": show(&needle.chars), "algo": algo.name(), "indices_variant": variant == 1, "rep": rep_tag(ha, na)}),
                                    );
                                    continue;
                                }
                            };
                            for &b in bytes {
                                dirty.config = cfg.to_config();
                                dirty.verif_fill_scratch(b);
                                idx2.clear();
                                acc.transitions += 1;
                                let got = catch_unwind(AssertUnwindSafe(|| {
                                    if variant == 0 {
                                        call_match(&mut dirty, algo, hay.view(ha), needle.view(na))
                                    } else {
                                        call_indices(&mut dirty, algo, hay.view(ha), needle.view(na), &mut idx2)
                                    }
                                }));
                                let bad = match &got {
                                    Ok(g) => *g != want || idx2 != idx,
                                    Err(_) => true,
                                };
                                if bad {
                                    if got.is_err() {
                                        dirty = Matcher::new(cfg.to_config());
                                    }
                                    let gi = idx2.clone();
                                    let wi = idx.clone();
                                    acc.violation(
                                        &format!("C10/stale_scratch_read/{}{}", algo.name(), if variant == 0 { "_match" } else { "_indices" }),
                                        "the result depends on what the scratch memory held before the call (a cell is read that the call did not write)",
                                        || json!({"cfg": cfg.tag(), "haystack": show(&hay.chars), "needle": show(&needle.chars), "algo": algo.name(), "indices_variant": variant == 1, "rep": rep_tag(ha, na),
                                                  "scratch_filled_with": format!("0x{b:02x}"), "fresh": {"score": want, "indices": wi}, "after_fill": {"score": got.as_ref().ok().copied().flatten(), "panicked": got.is_err(), "indices": gi}}),
                                    );
                                }
                            }
                        }
                    }
                }
            }
        };
        if shard == 0 {
            for (h, n) in texts.iter() {
                let hay = Text::new(h);
                let needle = Text::new(n);
                for cfg in cfgs {
                    acc.evaluations += 1;
                    acc.states += 1;
                    acc.nontrivial += 1;
                    judge(&hay, &needle, cfg, &ALGOS, &POISON, acc);
                }
            }
            return;
        }
        let lo = (shard as u64 - 1) * chunk;
        let mut hbuf = Vec::new();
        let mut nbuf = Vec::new();
        for hi in lo..(lo + chunk).min(nh) {
            crate::dom::decode(hi, &dom.alpha, &mut hbuf);
            let hay = Text::new(&hbuf);
            for &cfg in &dom.cfgs {
                let na = crate::dom::needle_alphabet(&dom.alpha, cfg);
                for ni in 0..crate::dom::count_strings(na.len(), dom.max_n) {
                    crate::dom::decode(ni, &na, &mut nbuf);
                    if nbuf.len() < 2 || nbuf.len() >= hbuf.len() {
                        continue; // the matrix is only used for 2 <= n < h
                    }
                    let needle = Text::new(&nbuf);
                    acc.evaluations += 1;
                    acc.states += 1;
                    judge(&hay, &needle, cfg, &[Algo::Fuzzy], &[0x03, 0xff], acc);
                }
            }
        }
        let _ = n_struct;
    })
}

pub fn run(tier: &str) -> ! {
    let mut rep = Report::new("C10", tier);
    dom::quiet_panics();
    let thorough = rep.is_thorough();
    // (a) totality
    let mixed8: Vec<char> = vec!['a', 'A', 'ä', 'Ä', 'ς', 'σ', ' ', '/'];
    let doms = if thorough {
        vec![
            Domain::new("ascii7", ASCII7, 6, 4, Cfg::all()),
            Domain::new("mixed8", &mixed8, 5, 4, Cfg::all()),
        ]
    } else {
        vec![
            Domain::new("ascii7", ASCII7, 4, 3, Cfg::all()),
            Domain::new("mixed8", &mixed8, 4, 2, Cfg::all()),
        ]
    };
    let mut descr = Vec::new();
    let mut expected_cases = 0u64;
    for d in &doms {
        descr.push(d.describe());
        expected_cases += d.size();
        let acc = dom::for_each_case("C10", d, totality_case);
        rep.acc.merge(acc);
    }
    let a_cases = rep.acc.evaluations;
    let acc = big_totality(thorough);
    let big_n = acc.evaluations;
    rep.acc.merge(acc);
    eprintln!("[C10] totality done {:.1}s", rep.start.elapsed().as_secs_f64());
    // (b) extents
    let acc = extents();
    let ext_n = acc.evaluations;
    rep.acc.merge(acc);
    eprintln!("[C10] extents done {:.1}s", rep.start.elapsed().as_secs_f64());
    // (c) history
    let depth = if thorough { 4 } else { 3 };
    let acc = history(depth);
    let hist_n = acc.evaluations;
    rep.acc.merge(acc);
    let acc = poisoned(thorough);
    let poison_n = acc.evaluations;
    rep.acc.merge(acc);
    eprintln!("[C10] poisoned scratch done {:.1}s", rep.start.elapsed().as_secs_f64());
    rep.extra("poisoned_scratch_cases", json!(poison_n));
    rep.acc.traces = rep.acc.transitions;
    rep.exhaustive = a_cases == expected_cases;
    rep.extra("totality_domains", json!(descr));
    rep.extra("totality_cases", json!(a_cases));
    rep.extra("large_shape_cases", json!(big_n));
    rep.extra("extent_pairs_checked(both char types)", json!(ext_n));
    rep.extra("history_sequences", json!(hist_n));
    rep.bound = format!(
        "(a) bounded domains + shape/long-needle families; (b) EVERY (h,n), n<=h<={H_MAX}, n<={N_MAX}, h*n<={CELL_MARGIN}, both character types - a superset of everything alloc accepts; (c) all call sequences of length <= {depth} over a pool of 40 calls; (c') every call of a structured pool (gaps 0..70, periodic and long haystacks; 6 algorithms x 2 variants x representations) and every fuzzy call of a complete small domain repeated after the whole scratch slab was overwritten with each of several byte patterns"
    );
    rep.rule = "totality: every entry point on every case; extents: every shape alloc accepts; history: every sequence; non-trivial = large-shape cases and sequences of length >= 2".into();
    rep.assumptions = vec![
        "harness and library are built with overflow-checks and debug-assertions, so arithmetic overflow and the library's own debug assertions surface as panics".into(),
        "extents are those of the real MatrixSlab::alloc, read through a cfg(nucleo_verif) accessor".into(),
        "large inputs are structured families (exhaustive in lengths, not in content)".into(),
    ];
    rep.finish()
}


/// Replays one case of any of the C10 parts (recognised by its keys).
pub fn replay_case(c: &Value, acc: &mut Acc) {
    if c.get("scratch_filled_with").is_some() {
        let cfg = Cfg::from_tag(c["cfg"].as_str().unwrap_or("INpx"));
        let hay = Text::new(&common::parse_cps(&c["haystack"]));
        let needle = Text::new(&common::parse_cps(&c["needle"]));
        let algo = Algo::from_name(c["algo"].as_str().unwrap_or("fuzzy")).unwrap_or(Algo::Fuzzy);
        let indices = c["indices_variant"].as_bool().unwrap_or(true);
        let byte = u8::from_str_radix(c["scratch_filled_with"].as_str().unwrap_or("0xff").trim_start_matches("0x"), 16).unwrap_or(0xff);
        let rep = c["rep"].as_str().unwrap_or("UU");
        let (ha, na) = (rep.as_bytes()[0] == b'A', rep.as_bytes()[1] == b'A');
        let run = |m: &mut Matcher| -> (Option<u16>, Vec<u32>) {
            let mut idx = Vec::new();
            let s = if indices { call_indices(m, algo, hay.view(ha), needle.view(na), &mut idx) } else { call_match(m, algo, hay.view(ha), needle.view(na)) };
            (s, idx)
        };
        let want = run(&mut Matcher::new(cfg.to_config()));
        let mut dirty = Matcher::new(cfg.to_config());
        dirty.verif_fill_scratch(byte);
        let got = run(&mut dirty);
        if got != want {
            acc.violation("C10/stale_scratch_read/replay", "the result depends on what the scratch memory held before the call", || json!({"fresh": {"score": want.0, "indices": want.1}, "after_fill": {"score": got.0, "indices": got.1}}));
        }
    } else if c.get("haystack_len").is_some() && c.get("view").is_some() || c.get("char_type").is_some() {
        let h = c["haystack_len"].as_u64().unwrap_or(1) as usize;
        let n = c["needle_len"].as_u64().unwrap_or(1) as usize;
        let mut m = Matcher::default();
        let uni: Vec<char> = vec!['a'; h];
        let asc: Vec<u8> = vec![b'a'; h];
        check_extents(acc, "char", h, n, 4, m.verif_alloc_extents_unicode(&uni, n));
        check_extents(acc, "ascii", h, n, 1, m.verif_alloc_extents_ascii(&asc, n));
    } else if c.get("cfg").is_some() && c.get("haystack").is_some() {
        let cfg = Cfg::from_tag(c["cfg"].as_str().unwrap_or("INpx"));
        let hay = Text::new(&common::parse_cps(&c["haystack"]));
        let needle = Text::new(&common::parse_cps(&c["needle"]));
        let view = crate::refm::HayView::new(&hay.chars, cfg);
        let mut ctx = Ctx { matcher: Matcher::new(cfg.to_config()), idx: Vec::new(), idx2: Vec::new() };
        let case = Case { cfg, hay: &hay, view: &view, needle: &needle };
        totality_case(&case, &mut ctx, acc);
    } else {
        acc.count("case kinds not replayed individually (large families, call sequences): re-run the check", 1);
    }
}
