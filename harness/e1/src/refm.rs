//! Reference models for the matcher properties. Deliberately boring: nested loops, wide
//! integers, literal constants (nothing is imported from `nucleo_matcher::score`).

use nucleo_matcher::{chars, Config};

#[derive(Clone, Copy, Debug, PartialEq, Eq, Hash, PartialOrd, Ord)]
pub struct Cfg {
    pub ignore_case: bool,
    pub normalize: bool,
    pub paths: bool,
    pub prefer_prefix: bool,
}

impl Cfg {
    pub fn all() -> Vec<Cfg> {
        let mut v = Vec::new();
        for paths in [false, true] {
            for prefer_prefix in [false, true] {
                for normalize in [true, false] {
                    for ignore_case in [true, false] {
                        v.push(Cfg {
                            ignore_case,
                            normalize,
                            paths,
                            prefer_prefix,
                        })
                    }
                }
            }
        }
        v
    }
    pub fn all_no_prefix() -> Vec<Cfg> {
        Cfg::all().into_iter().filter(|c| !c.prefer_prefix).collect()
    }
    pub fn to_config(self) -> Config {
        let mut c = if self.paths {
            Config::DEFAULT.match_paths()
        } else {
            Config::DEFAULT
        };
        c.ignore_case = self.ignore_case;
        c.normalize = self.normalize;
        c.prefer_prefix = self.prefer_prefix;
        c
    }
    pub fn tag(self) -> String {
        format!(
            "{}{}{}{}",
            if self.ignore_case { "I" } else { "i" },
            if self.normalize { "N" } else { "n" },
            if self.paths { "P" } else { "p" },
            if self.prefer_prefix { "X" } else { "x" }
        )
    }
    pub fn from_tag(t: &str) -> Cfg {
        let b = t.as_bytes();
        Cfg {
            ignore_case: b[0] == b'I',
            normalize: b[1] == b'N',
            paths: b[2] == b'P',
            prefer_prefix: b[3] == b'X',
        }
    }
    pub fn white_bonus(self) -> i64 {
        if self.paths {
            8
        } else {
            10
        }
    }
    pub fn initial_class(self) -> Class {
        if self.paths {
            Class::Delimiter
        } else {
            Class::Whitespace
        }
    }
    pub fn delimiters(self) -> &'static [u8] {
        if self.paths {
            b"/"
        } else {
            b"/,:;|"
        }
    }
}

/// The per-character normal form the matcher is documented to compare with: Latin
/// normalisation (if configured) followed by simple case folding (if configured). Both are the
/// crate's public functions; their own correctness is property C16's job.
pub fn norm(c: char, cfg: Cfg) -> char {
    let mut c = c;
    if cfg.normalize {
        c = chars::normalize(c);
    }
    if cfg.ignore_case {
        c = chars::to_lower_case(c);
    }
    c
}

#[derive(Clone, Copy, Debug, PartialEq, Eq, Hash, PartialOrd, Ord)]
pub enum Class {
    Whitespace,
    NonWord,
    Delimiter,
    Lower,
    Upper,
    Letter,
    Number,
}

impl Class {
    pub fn is_word(self) -> bool {
        matches!(
            self,
            Class::Lower | Class::Upper | Class::Letter | Class::Number
        )
    }
}

/// Character class of a haystack character (always of the *original* character, before
/// normalisation), re-implemented from the documented classes.
pub fn class(c: char, cfg: Cfg) -> Class {
    if c.is_ascii() {
        let b = c as u8;
        return match b {
            b'a'..=b'z' => Class::Lower,
            b'A'..=b'Z' => Class::Upper,
            b'0'..=b'9' => Class::Number,
            b' ' | b'\t' | b'\n' | b'\r' | 0x0C => Class::Whitespace,
            _ if cfg.delimiters().contains(&b) => Class::Delimiter,
            _ => Class::NonWord,
        };
    }
    if c.is_lowercase() {
        Class::Lower
    } else if chars::is_upper_case(c) {
        Class::Upper
    } else if c.is_numeric() {
        Class::Number
    } else if c.is_alphabetic() {
        Class::Letter
    } else if c.is_whitespace() {
        Class::Whitespace
    } else {
        Class::NonWord
    }
}

/// Positional bonus of a character of class `cur` preceded by a character of class `prev`.
pub fn bonus(prev: Class, cur: Class, cfg: Cfg) -> i64 {
    if cur.is_word() {
        match prev {
            Class::Whitespace => return cfg.white_bonus(),
            Class::Delimiter => return 9,
            Class::NonWord => return 8,
            _ => {}
        }
    }
    if (prev == Class::Lower && cur == Class::Upper)
        || (prev != Class::Number && cur == Class::Number)
    {
        5
    } else if cur == Class::Whitespace {
        cfg.white_bonus()
    } else if cur == Class::NonWord {
        8
    } else {
        0
    }
}

/// Pre-computed view of one haystack under one configuration.
pub struct HayView {
    pub normed: Vec<char>,
    pub classes: Vec<Class>,
    /// bonus[j] = bonus of haystack position j given its predecessor (or the initial class)
    pub bonus: Vec<i64>,
}

impl HayView {
    pub fn new(hay: &[char], cfg: Cfg) -> HayView {
        let normed: Vec<char> = hay.iter().map(|&c| norm(c, cfg)).collect();
        let classes: Vec<Class> = hay.iter().map(|&c| class(c, cfg)).collect();
        let mut bonus_v = Vec::with_capacity(hay.len());
        let mut prev = cfg.initial_class();
        for &cl in &classes {
            bonus_v.push(bonus(prev, cl, cfg));
            prev = cl;
        }
        HayView {
            normed,
            classes,
            bonus: bonus_v,
        }
    }
}

pub fn is_subsequence(needle: &[char], normed_hay: &[char]) -> bool {
    let mut k = 0;
    for &c in normed_hay {
        if k < needle.len() && c == needle[k] {
            k += 1;
        }
    }
    k == needle.len()
}

/// fzf-style score of one alignment (strictly increasing `idx`, one per needle character),
/// prefix preference off. Wide integers; the running score is floored at zero on every skipped
/// character.
pub fn ref_score(view: &HayView, idx: &[u32]) -> i64 {
    let n = idx.len();
    if n == 0 {
        return 0;
    }
    let first = idx[0] as usize;
    let mut first_bonus = view.bonus[first];
    let mut score: i64 = 16 + 2 * first_bonus;
    let mut k = 1;
    let mut in_gap = false;
    let last = idx[n - 1] as usize;
    let mut j = first + 1;
    while j <= last {
        if k < n && idx[k] as usize == j {
            let mut b = view.bonus[j];
            if idx[k - 1] as usize + 1 == j {
                if b >= 8 && b > first_bonus {
                    first_bonus = b;
                }
                b = b.max(first_bonus).max(4);
            } else {
                first_bonus = b;
            }
            score += 16 + b;
            in_gap = false;
            k += 1;
        } else {
            let pen = if in_gap { 1 } else { 3 };
            score = (score - pen).max(0);
            in_gap = true;
        }
        j += 1;
    }
    score
}

/// Maximum of `ref_score` over *all* alignments of `needle` in the haystack (exponential; only
/// for small inputs). `None` if there is no alignment.
pub fn brute_max(view: &HayView, needle: &[char]) -> Option<i64> {
    fn rec(
        view: &HayView,
        needle: &[char],
        k: usize,
        from: usize,
        idx: &mut Vec<u32>,
        best: &mut Option<i64>,
    ) {
        if k == needle.len() {
            let s = ref_score(view, idx);
            if best.map_or(true, |b| s > b) {
                *best = Some(s);
            }
            return;
        }
        let h = view.normed.len();
        let remaining = needle.len() - k;
        if h < remaining {
            return;
        }
        for j in from..=(h - remaining) {
            if view.normed[j] == needle[k] {
                idx.push(j as u32);
                rec(view, needle, k + 1, j + 1, idx, best);
                idx.pop();
            }
        }
    }
    let mut best = None;
    let mut idx = Vec::with_capacity(needle.len());
    rec(view, needle, 0, 0, &mut idx, &mut best);
    best
}

/// The documented two-matrix affine-gap recurrence, evaluated naively on the full
/// needle x haystack matrix (prefix preference off).
///
/// `M[i][j]`: best score with needle[i] matched at haystack[j] (plus the consecutive bonus
/// carried by that cell); `P[i][j]`: best score with needle[..=i] matched and haystack[j] skipped.
/// Tie rules as documented: a consecutive continuation is taken only when strictly better than
/// opening a new run.
pub fn naive_recurrence(view: &HayView, needle: &[char]) -> Option<i64> {
    let h = view.normed.len();
    let n = needle.len();
    if n == 0 {
        return Some(0);
    }
    if n > h {
        return None;
    }
    #[derive(Clone, Copy)]
    struct MCell {
        score: i64,
        cons: i64,
    }
    let mut m: Vec<Vec<Option<MCell>>> = vec![vec![None; h]; n];
    let mut p: Vec<Vec<Option<i64>>> = vec![vec![None; h]; n];
    for i in 0..n {
        for j in 0..h {
            // P[i][j]
            if j > 0 {
                let from_m = m[i][j - 1].map(|c| (c.score - 3).max(0));
                let from_p = p[i][j - 1].map(|s| (s - 1).max(0));
                p[i][j] = match (from_m, from_p) {
                    (Some(a), Some(b)) => Some(a.max(b)),
                    (Some(a), None) => Some(a),
                    (None, Some(b)) => Some(b),
                    (None, None) => None,
                };
            }
            // M[i][j]
            if view.normed[j] != needle[i] {
                continue;
            }
            let b = view.bonus[j];
            if i == 0 {
                m[i][j] = Some(MCell {
                    score: 16 + 2 * b,
                    cons: b,
                });
                continue;
            }
            if j == 0 {
                continue;
            }
            let skip = p[i - 1][j - 1].map(|ps| ps + b + 16);
            let cont = m[i - 1][j - 1].map(|mc| {
                let mut cb = mc.cons.max(4);
                if b >= 8 && b > cb {
                    cb = b;
                }
                (mc.score + cb.max(b) + 16, cb)
            });
            m[i][j] = match (cont, skip) {
                (Some((cs, cb)), Some(ss)) => {
                    if cs > ss {
                        Some(MCell { score: cs, cons: cb })
                    } else {
                        Some(MCell { score: ss, cons: b })
                    }
                }
                (Some((cs, cb)), None) => Some(MCell { score: cs, cons: cb }),
                (None, Some(ss)) => Some(MCell { score: ss, cons: b }),
                (None, None) => None,
            };
        }
    }
    m[n - 1].iter().filter_map(|c| c.map(|c| c.score)).max()
}

/// All start positions at which `needle` occurs contiguously in the normalised haystack.
pub fn occurrences(view: &HayView, needle: &[char]) -> Vec<usize> {
    let h = view.normed.len();
    let n = needle.len();
    let mut v = Vec::new();
    if n == 0 || n > h {
        return v;
    }
    for s in 0..=(h - n) {
        if (0..n).all(|k| view.normed[s + k] == needle[k]) {
            v.push(s);
        }
    }
    v
}

/// Whitespace as the anchored matchers see it on a haystack of the given representation.
pub fn is_ws_hay(c: char, ascii_repr: bool) -> bool {
    if ascii_repr {
        (c as u32) < 128 && (c as u8).is_ascii_whitespace()
    } else {
        c.is_whitespace()
    }
}

pub fn leading_ws(hay: &[char], ascii_repr: bool) -> usize {
    hay.iter().take_while(|&&c| is_ws_hay(c, ascii_repr)).count()
}
pub fn trailing_ws(hay: &[char], ascii_repr: bool) -> usize {
    hay.iter()
        .rev()
        .take_while(|&&c| is_ws_hay(c, ascii_repr))
        .count()
}

/// Expected start of an anchored match (prefix/postfix/exact), or None when the documented
/// relation does not hold. Returns the index of the first matched haystack character.
pub fn anchored_expect(
    kind: crate::algos::Algo,
    hay: &[char],
    view: &HayView,
    needle: &[char],
    hay_ascii_repr: bool,
) -> Option<usize> {
    use crate::algos::Algo;
    let h = hay.len();
    let n = needle.len();
    if n == 0 {
        return None; // callers handle the empty needle separately
    }
    let strip_lead = !needle[0].is_whitespace();
    let strip_trail = !needle[n - 1].is_whitespace();
    let lead = if strip_lead {
        leading_ws(hay, hay_ascii_repr)
    } else {
        0
    };
    let trail = if strip_trail {
        trailing_ws(hay, hay_ascii_repr)
    } else {
        0
    };
    let eq_at = |s: usize| -> bool { s + n <= h && (0..n).all(|k| view.normed[s + k] == needle[k]) };
    match kind {
        Algo::Prefix => {
            if lead <= h && eq_at(lead) {
                Some(lead)
            } else {
                None
            }
        }
        Algo::Postfix => {
            if h >= trail && h - trail >= n {
                let s = h - trail - n;
                if eq_at(s) {
                    Some(s)
                } else {
                    None
                }
            } else {
                None
            }
        }
        Algo::Exact => {
            if lead + trail <= h && h - lead - trail == n && eq_at(lead) {
                Some(lead)
            } else {
                None
            }
        }
        _ => unreachable!(),
    }
}
