//! C16 — character normalisation is a coherent, idempotent projection.
//! Complete enumeration of all 1,112,064 Unicode scalar values x 4 configurations.

use std::collections::{HashMap, HashSet};

use common::{json, machinery_failure, par_shards, threads, Acc, Report};
use nucleo_matcher::{chars, Matcher};

use crate::algos::{call_indices, call_match, Text, ALGOS};
use crate::refm::{norm, Cfg};

struct UniRef {
    version: String,
    fold: HashMap<u32, u32>,
    unassigned: HashSet<u32>,
    nfkd_base: HashMap<u32, u32>,
}

fn load_ref(path: &str) -> UniRef {
    let text = std::fs::read_to_string(path)
        .unwrap_or_else(|e| machinery_failure(&format!("cannot read unicode reference {path}: {e}")));
    let mut r = UniRef {
        version: String::new(),
        fold: HashMap::new(),
        unassigned: HashSet::new(),
        nfkd_base: HashMap::new(),
    };
    for line in text.lines() {
        let mut it = line.split_whitespace();
        let Some(k) = it.next() else { continue };
        let hex = |s: Option<&str>| -> u32 {
            u32::from_str_radix(s.unwrap_or(""), 16)
                .unwrap_or_else(|_| machinery_failure("malformed unicode reference line"))
        };
        match k {
            "V" => r.version = it.next().unwrap_or("").to_owned(),
            "F" => {
                let a = hex(it.next());
                let b = hex(it.next());
                r.fold.insert(a, b);
            }
            "U" => {
                r.unassigned.insert(hex(it.next()));
            }
            "N" => {
                let a = hex(it.next());
                let b = hex(it.next());
                r.nfkd_base.insert(a, b);
            }
            _ => machinery_failure("malformed unicode reference line"),
        }
    }
    if r.fold.len() < 1000 || r.nfkd_base.len() < 300 {
        machinery_failure("unicode reference looks truncated");
    }
    r
}

fn in_blocks(cp: u32) -> bool {
    (0xA0..=0x29F).contains(&cp) || (0x1E00..=0x1EFF).contains(&cp) || (0x2070..=0x209F).contains(&cp)
}

fn cpj(c: char) -> String {
    format!("U+{:04X} {:?}", c as u32, c)
}

struct Scratch {
    m: Matcher,
    idx: Vec<u32>,
    hay: Text,
    needle: Text,
}

fn check_char(cp: u32, c: char, uref: &UniRef, cfgs: &[Cfg], sc: &mut Scratch, acc: &mut Acc) {
    let Scratch { m, idx, hay, needle } = sc;
    acc.evaluations += 1;
    acc.states += 1;
    let lower = chars::to_lower_case(c);
    let upper = chars::is_upper_case(c);
    let nrm = chars::normalize(c);
    let mut nontrivial = false;
    // (1) simple case folding
    if !uref.unassigned.contains(&cp) {
        let want = uref.fold.get(&cp).copied().unwrap_or(cp);
        if lower as u32 != want {
            acc.violation("C16/fold/value", "to_lower_case differs from Unicode simple case folding", || {
                json!({"char": cpj(c), "to_lower_case": cpj(lower), "simple_case_folding": format!("U+{want:04X}")})
            });
        }
        if upper != (want != cp) {
            acc.violation("C16/fold/is_upper_case", "is_upper_case differs from 'has a simple case folding'", || {
                json!({"char": cpj(c), "is_upper_case": upper, "has_folding": want != cp})
            });
        }
        if want != cp {
            nontrivial = true;
        }
    } else {
        acc.count("unassigned_in_reference_version(folding unconstrained)", 1);
    }
    if upper != (lower != c) {
        acc.violation("C16/fold/is_upper_vs_to_lower", "is_upper_case(c) disagrees with to_lower_case(c) != c", || json!({"char": cpj(c)}));
    }
    // (2) Latin normalisation
    if !in_blocks(cp) {
        if nrm != c {
            acc.violation("C16/normalize/outside_blocks", "normalize changes a character outside its documented blocks", || {
                json!({"char": cpj(c), "normalize": cpj(nrm)})
            });
        }
    } else {
        nontrivial = true;
        if let Some(&base) = uref.nfkd_base.get(&cp) {
            if nrm as u32 != base {
                acc.violation("C16/normalize/decomposition", "normalize differs from the ASCII base of the compatibility decomposition", || {
                    json!({"char": cpj(c), "normalize": cpj(nrm), "nfkd_base": cpj(char::from_u32(base).unwrap())})
                });
            }
            acc.count("in_block_with_ascii_decomposition", 1);
        } else {
            acc.count("in_block_unconstrained", 1);
        }
    }
    // (3) idempotence, ASCII stability
    if chars::to_lower_case(lower) != lower {
        acc.violation("C16/fold/idempotence", "to_lower_case is not idempotent", || json!({"char": cpj(c), "once": cpj(lower), "twice": cpj(chars::to_lower_case(lower))}));
    }
    if chars::normalize(nrm) != nrm {
        acc.violation("C16/normalize/idempotence", "normalize is not idempotent", || json!({"char": cpj(c), "once": cpj(nrm), "twice": cpj(chars::normalize(nrm))}));
    }
    if c.is_ascii() {
        if nrm != c {
            acc.violation("C16/normalize/ascii", "normalize changes an ASCII character", || json!({"char": cpj(c)}));
        }
        let want = if c.is_ascii_uppercase() { c.to_ascii_lowercase() } else { c };
        if lower != want {
            acc.violation("C16/fold/ascii", "to_lower_case wrong on ASCII", || json!({"char": cpj(c)}));
        }
    }
    // (4) coherence of every place that normalises a haystack character
    for &cfg in cfgs {
        let t = norm(c, cfg);
        if norm(t, cfg) != t {
            // t is not an "already normalised" needle (e.g. U+0194 folds to U+0263, which
            // Latin normalisation would map again): outside the matcher's precondition.
            acc.count("composite_normal_form_not_idempotent(skipped, observation only)", 1);
            continue;
        }
        m.config = cfg.to_config();
        let hays: [&[char]; 3] = [&[c], &['x', c], &['x', c, '-', c]];
        let needles: [&[char]; 2] = [&[t], &[t, t]];
        for (hi, h) in hays.iter().enumerate() {
            hay.set(h);
            for (ni, n) in needles.iter().enumerate() {
                // skip combinations where the relation does not hold by construction
                let occurrences = h.iter().filter(|&&x| norm(x, cfg) == t).count();
                if occurrences < n.len() {
                    continue;
                }
                needle.set(n);
                for &ha in hay.reps() {
                    for &na in needle.reps() {
                        if ha && !na {
                            continue; // (Ascii, Unicode) is C01's open finding F2
                        }
                        let hv = hay.view(ha);
                        let nv = needle.view(na);
                        for &algo in &ALGOS {
                            // anchored kinds only where the relation holds by construction
                            let applicable = match algo {
                                crate::algos::Algo::Exact => h.len() == n.len(),
                                crate::algos::Algo::Prefix => (0..n.len()).all(|k| norm(h[k], cfg) == n[k]) && !h[0].is_whitespace(),
                                crate::algos::Algo::Postfix => (0..n.len()).all(|k| norm(h[h.len() - n.len() + k], cfg) == n[k]) && !h[h.len() - 1].is_whitespace(),
                                crate::algos::Algo::Substring => {
                                    (0..=h.len() - n.len()).any(|s| (0..n.len()).all(|k| norm(h[s + k], cfg) == n[k]))
                                }
                                _ => true,
                            };
                            if !applicable {
                                continue;
                            }
                            acc.transitions += 2;
                            let r = std::panic::catch_unwind(std::panic::AssertUnwindSafe(|| {
                                let sm = call_match(m, algo, hv, nv);
                                idx.clear();
                                let si = call_indices(m, algo, hv, nv, idx);
                                (sm, si)
                            }));
                            let (sm, si) = match r {
                                Ok(x) => x,
                                Err(p) => {
                                    *m = Matcher::new(cfg.to_config());
                                    let msg = crate::dom::panic_msg(&p);
                                    acc.violation(&format!("C16/coherence/{}/panic", algo.name()), &format!("matcher panicked: {msg}"), || {
                                        json!({"char": cpj(c), "cfg": cfg.tag(), "haystack_shape": hi, "needle_shape": ni})
                                    });
                                    continue;
                                }
                            };
                            let mut bad: Option<String> = None;
                            if sm.is_none() || si.is_none() {
                                bad = Some("rejects a haystack character against its own normal form".into());
                            } else if sm != si {
                                bad = Some("score-only and indices variants differ".into());
                            } else if idx.len() != n.len()
                                || idx.iter().enumerate().any(|(k, &i)| (i as usize) >= h.len() || norm(h[i as usize], cfg) != n[k])
                                || idx.windows(2).any(|w| w[1] <= w[0])
                            {
                                bad = Some("reports indices that are not a witness".into());
                            } else if (sm.unwrap() as usize) < 16 * n.len() && idx.windows(2).all(|w| w[1] == w[0] + 1) {
                                bad = Some("scores a contiguous match below 16 per character".into());
                            }
                            if let Some(what) = bad {
                                let idxc = idx.clone();
                                acc.violation(&format!("C16/coherence/{}", algo.name()), &format!("{}: {}", algo.name(), what), || {
                                    json!({"char": cpj(c), "cfg": cfg.tag(), "normal_form": cpj(t), "haystack": common::show(h), "needle": common::show(n),
                                           "hay_ascii_repr": ha, "needle_ascii_repr": na, "match": sm, "indices_result": si, "indices": idxc})
                                });
                            }
                        }
                    }
                }
            }
        }
    }
    if nontrivial {
        acc.nontrivial += 1;
        if cp % 97 == 0 {
            acc.sample(|| json!({"char": cpj(c), "to_lower_case": cpj(lower), "normalize": cpj(nrm)}));
        }
    }
    acc.outcome(&format!(
        "{}{}{}",
        if lower != c { "F" } else { "-" },
        if nrm != c { "N" } else { "-" },
        if c.is_ascii() { "A" } else { "-" }
    ));
}

pub fn replay_case(c: &common::Value, acc: &mut Acc) {
    let ref_path = std::env::var("VERIF_UNICODE_REF").unwrap_or_else(|_| machinery_failure("VERIF_UNICODE_REF not set (run through run.sh)"));
    let uref = load_ref(&ref_path);
    let txt = c["char"].as_str().unwrap_or("U+0041");
    let cp = u32::from_str_radix(txt.trim_start_matches("U+").split(' ').next().unwrap_or("41"), 16).unwrap_or(0x41);
    let Some(ch) = char::from_u32(cp) else { return };
    let cfgs = all_cfgs();
    let mut sc = Scratch { m: Matcher::default(), idx: Vec::new(), hay: Text::new(&[]), needle: Text::new(&[]) };
    check_char(cp, ch, &uref, &cfgs, &mut sc, acc);
}

fn all_cfgs() -> Vec<Cfg> {
    vec![
        Cfg { ignore_case: true, normalize: true, paths: false, prefer_prefix: false },
        Cfg { ignore_case: true, normalize: false, paths: false, prefer_prefix: false },
        Cfg { ignore_case: false, normalize: true, paths: false, prefer_prefix: false },
        Cfg { ignore_case: false, normalize: false, paths: false, prefer_prefix: false },
    ]
}

pub fn run(tier: &str, ref_path: &str) -> ! {
    let mut rep = Report::new("C16", tier);
    crate::dom::quiet_panics();
    let uref = load_ref(ref_path);
    let cfgs: Vec<Cfg> = vec![
        Cfg { ignore_case: true, normalize: true, paths: false, prefer_prefix: false },
        Cfg { ignore_case: true, normalize: false, paths: false, prefer_prefix: false },
        Cfg { ignore_case: false, normalize: true, paths: false, prefer_prefix: false },
        Cfg { ignore_case: false, normalize: false, paths: false, prefer_prefix: false },
    ];
    let chunk = 1024u32;
    let shards = (0x110000 / chunk) as usize;
    let acc = par_shards(shards, threads(), |shard, acc: &mut Acc| {
        let mut sc = Scratch { m: Matcher::default(), idx: Vec::new(), hay: Text::new(&[]), needle: Text::new(&[]) };
        let lo = shard as u32 * chunk;
        for cp in lo..lo + chunk {
            let Some(c) = char::from_u32(cp) else { continue };
            check_char(cp, c, &uref, &cfgs, &mut sc, acc);
        }
    });
    rep.acc.merge(acc);
    rep.acc.traces = rep.acc.transitions;
    rep.exhaustive = rep.acc.evaluations == 1_112_064;
    if !rep.exhaustive {
        rep.caps.push(format!("only {} scalar values visited", rep.acc.evaluations));
    }
    rep.bound = "all 1,112,064 Unicode scalar values x {ignore_case} x {normalize}; complete, no bound".into();
    rep.rule = "every Unicode scalar value; non-trivial = has a simple case folding or lies inside a normalisation block".into();
    rep.extra("reference_unicodedata_version", json!(uref.version));
    rep.extra("reference_fold_entries", json!(uref.fold.len()));
    rep.extra("reference_decomposition_entries", json!(uref.nfkd_base.len()));
    rep.assumptions = vec![
        format!("reference tables derived at check time from python3 unicodedata {} (simple case folding = casefold() if one char else lower() if one char; NFKD); code points unassigned in that version are not constrained for folding", uref.version),
        "coherence is exercised through the public matchers on the haystacks [c], [x,c], [x,c,-,c] against needles [t], [t,t] with t the configured normal form of c".into(),
        "(Ascii haystack, Unicode needle) pairs are skipped here: that arm is open finding F2 of C01".into(),
    ];
    rep.finish()
}
