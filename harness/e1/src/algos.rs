//! Thin layer that presents strings to the real matcher in a chosen representation and calls
//! one of the twelve entry points.

use nucleo_matcher::{Matcher, Utf32Str};

#[derive(Clone, Copy, Debug, PartialEq, Eq, Hash, PartialOrd, Ord)]
pub enum Algo {
    Fuzzy,
    Greedy,
    Substring,
    Prefix,
    Postfix,
    Exact,
}

pub const ALGOS: [Algo; 6] = [
    Algo::Fuzzy,
    Algo::Greedy,
    Algo::Substring,
    Algo::Prefix,
    Algo::Postfix,
    Algo::Exact,
];

impl Algo {
    pub fn name(self) -> &'static str {
        match self {
            Algo::Fuzzy => "fuzzy",
            Algo::Greedy => "fuzzy_greedy",
            Algo::Substring => "substring",
            Algo::Prefix => "prefix",
            Algo::Postfix => "postfix",
            Algo::Exact => "exact",
        }
    }
    pub fn from_name(s: &str) -> Option<Algo> {
        ALGOS.iter().copied().find(|a| a.name() == s)
    }
    pub fn is_fuzzy(self) -> bool {
        matches!(self, Algo::Fuzzy | Algo::Greedy)
    }
}

/// A string together with its ASCII byte form if it has one.
pub struct Text {
    pub chars: Vec<char>,
    pub bytes: Option<Vec<u8>>,
}

impl Text {
    pub fn new(chars: &[char]) -> Text {
        let bytes = if chars.iter().all(|c| c.is_ascii()) {
            Some(chars.iter().map(|&c| c as u8).collect())
        } else {
            None
        };
        Text {
            chars: chars.to_vec(),
            bytes,
        }
    }
    pub fn set(&mut self, chars: &[char]) {
        self.chars.clear();
        self.chars.extend_from_slice(chars);
        if chars.iter().all(|c| c.is_ascii()) {
            let b = self.bytes.get_or_insert_with(Vec::new);
            b.clear();
            b.extend(chars.iter().map(|&c| c as u8));
        } else {
            self.bytes = None;
        }
    }
    /// ascii == true asks for the ASCII representation (only valid when `bytes` is Some).
    pub fn view(&self, ascii: bool) -> Utf32Str<'_> {
        if ascii {
            Utf32Str::Ascii(self.bytes.as_deref().expect("ascii view of non-ascii text"))
        } else {
            Utf32Str::Unicode(&self.chars)
        }
    }
    pub fn reps(&self) -> &'static [bool] {
        if self.bytes.is_some() {
            &[true, false]
        } else {
            &[false]
        }
    }
}

pub fn call_match(m: &mut Matcher, a: Algo, h: Utf32Str<'_>, n: Utf32Str<'_>) -> Option<u16> {
    match a {
        Algo::Fuzzy => m.fuzzy_match(h, n),
        Algo::Greedy => m.fuzzy_match_greedy(h, n),
        Algo::Substring => m.substring_match(h, n),
        Algo::Prefix => m.prefix_match(h, n),
        Algo::Postfix => m.postfix_match(h, n),
        Algo::Exact => m.exact_match(h, n),
    }
}

pub fn call_indices(
    m: &mut Matcher,
    a: Algo,
    h: Utf32Str<'_>,
    n: Utf32Str<'_>,
    idx: &mut Vec<u32>,
) -> Option<u16> {
    match a {
        Algo::Fuzzy => m.fuzzy_indices(h, n, idx),
        Algo::Greedy => m.fuzzy_indices_greedy(h, n, idx),
        Algo::Substring => m.substring_indices(h, n, idx),
        Algo::Prefix => m.prefix_indices(h, n, idx),
        Algo::Postfix => m.postfix_indices(h, n, idx),
        Algo::Exact => m.exact_indices(h, n, idx),
    }
}

pub fn rep_tag(hay_ascii: bool, needle_ascii: bool) -> &'static str {
    match (hay_ascii, needle_ascii) {
        (true, true) => "AA",
        (true, false) => "AU",
        (false, true) => "UA",
        (false, false) => "UU",
    }
}
