//! Shared plumbing for every check: accumulation of coverage counters, violation bookkeeping with
//! known-finding classification, evidence and replay files, exit codes.
//!
//! Exit codes: 0 = property held on everything explored (possibly with KNOWN-FINDING lines),
//! 1 = at least one unlisted violation (a `VIOLATION property=<id> replay=<path>` line per
//! distinct signature), 2 = machinery failure (never a verdict).

use std::collections::BTreeMap;
use std::fmt::Write as _;
use std::path::PathBuf;
use std::time::Instant;

pub use serde_json::{json, Map, Value};

pub const MAX_EXAMPLES_PER_SIGNATURE: usize = 12;
pub const MAX_SAMPLES: usize = 12;

pub fn verif_root() -> PathBuf {
    std::env::var_os("VERIF_ROOT")
        .map(PathBuf::from)
        .unwrap_or_else(|| PathBuf::from("/verif"))
}

#[derive(Clone, Debug)]
pub struct ViolationClass {
    pub count: u64,
    pub what: String,
    pub examples: Vec<Value>,
}

/// Mergeable accumulator; one per worker thread, merged into the `Report`.
#[derive(Default, Clone)]
pub struct Acc {
    pub evaluations: u64,
    pub nontrivial: u64,
    pub states: u64,
    pub transitions: u64,
    pub traces: u64,
    pub outcomes: BTreeMap<String, u64>,
    pub violations: BTreeMap<String, ViolationClass>,
    pub samples: Vec<Value>,
    pub counters: BTreeMap<String, u64>,
}

impl Acc {
    pub fn new() -> Self {
        Self::default()
    }
    pub fn outcome(&mut self, key: &str) {
        if let Some(v) = self.outcomes.get_mut(key) {
            *v += 1;
        } else {
            self.outcomes.insert(key.to_owned(), 1);
        }
    }
    pub fn count(&mut self, key: &str, n: u64) {
        if let Some(v) = self.counters.get_mut(key) {
            *v += n;
        } else {
            self.counters.insert(key.to_owned(), n);
        }
    }
    pub fn sample(&mut self, v: impl FnOnce() -> Value) {
        if self.samples.len() < MAX_SAMPLES {
            self.samples.push(v());
        }
    }
    /// Record a violation. `signature` is the classifier output (call site + input class); the
    /// example is only materialised for the first few of each signature.
    pub fn violation(&mut self, signature: &str, what: &str, example: impl FnOnce() -> Value) {
        let e = self
            .violations
            .entry(signature.to_owned())
            .or_insert_with(|| ViolationClass {
                count: 0,
                what: what.to_owned(),
                examples: Vec::new(),
            });
        e.count += 1;
        if e.examples.len() < MAX_EXAMPLES_PER_SIGNATURE {
            e.examples.push(example());
        }
    }
    pub fn merge(&mut self, o: Acc) {
        self.evaluations += o.evaluations;
        self.nontrivial += o.nontrivial;
        self.states += o.states;
        self.transitions += o.transitions;
        self.traces += o.traces;
        for (k, v) in o.outcomes {
            *self.outcomes.entry(k).or_insert(0) += v;
        }
        for (k, v) in o.counters {
            *self.counters.entry(k).or_insert(0) += v;
        }
        for (k, v) in o.violations {
            match self.violations.get_mut(&k) {
                Some(e) => {
                    e.count += v.count;
                    for ex in v.examples {
                        if e.examples.len() < MAX_EXAMPLES_PER_SIGNATURE {
                            e.examples.push(ex);
                        }
                    }
                }
                None => {
                    self.violations.insert(k, v);
                }
            }
        }
        for s in o.samples {
            if self.samples.len() < MAX_SAMPLES {
                self.samples.push(s);
            }
        }
    }
}

pub struct Report {
    pub id: String,
    pub tier: String,
    pub seed: i64,
    pub start: Instant,
    pub acc: Acc,
    pub rule: String,
    pub assumptions: Vec<String>,
    pub extra: Map<String, Value>,
    pub exhaustive: bool,
    pub caps: Vec<String>,
    pub bound: String,
}

#[derive(Debug, Clone)]
pub struct KnownFinding {
    pub status: String,
    pub property: String,
    pub signature: String,
    pub what: String,
}

pub fn load_known_findings() -> Vec<KnownFinding> {
    let p = verif_root().join("known_findings.json");
    let Ok(text) = std::fs::read_to_string(&p) else {
        return Vec::new();
    };
    let v: Value = match serde_json::from_str(&text) {
        Ok(v) => v,
        Err(e) => machinery_failure(&format!("known_findings.json does not parse: {e}")),
    };
    let mut out = Vec::new();
    if let Some(arr) = v.get("findings").and_then(|f| f.as_array()) {
        for f in arr {
            out.push(KnownFinding {
                status: f["status"].as_str().unwrap_or("").to_owned(),
                property: f["property"].as_str().unwrap_or("").to_owned(),
                signature: f["signature"].as_str().unwrap_or("").to_owned(),
                what: f["what"].as_str().unwrap_or("").to_owned(),
            });
        }
    }
    out
}

pub fn machinery_failure(msg: &str) -> ! {
    eprintln!("MACHINERY-FAILURE: {msg}");
    println!("MACHINERY-FAILURE: {msg}");
    std::process::exit(2)
}

impl Report {
    pub fn new(id: &str, tier: &str) -> Report {
        let seed = std::env::var("VERIF_SEED")
            .ok()
            .and_then(|s| s.parse::<i64>().ok())
            .unwrap_or(0);
        if tier != "quick" && tier != "thorough" {
            machinery_failure(&format!("unknown tier {tier}"));
        }
        Report {
            id: id.to_owned(),
            tier: tier.to_owned(),
            seed,
            start: Instant::now(),
            acc: Acc::new(),
            rule: String::new(),
            assumptions: Vec::new(),
            extra: Map::new(),
            exhaustive: false,
            caps: Vec::new(),
            bound: String::new(),
        }
    }

    pub fn is_thorough(&self) -> bool {
        self.tier == "thorough"
    }

    pub fn extra(&mut self, k: &str, v: Value) {
        self.extra.insert(k.to_owned(), v);
    }

    /// Writes evidence + replay files, prints VIOLATION / KNOWN-FINDING lines and exits.
    pub fn finish(mut self) -> ! {
        let root = verif_root();
        let known = load_known_findings();
        let mut unlisted: Vec<(String, ViolationClass)> = Vec::new();
        let mut listed: Vec<(KnownFinding, u64)> = Vec::new();
        for (sig, class) in std::mem::take(&mut self.acc.violations) {
            // signatures recorded by generic code carry a placeholder for the property id
            let sig = if let Some(rest) = sig.strip_prefix("*/") { format!("{}/{rest}", self.id) } else { sig };
            let k = known
                .iter()
                .find(|k| k.status == "open" && k.property == self.id && k.signature == sig);
            match k {
                Some(k) => listed.push((k.clone(), class.count)),
                None => unlisted.push((sig, class)),
            }
        }
        for (k, n) in &listed {
            println!(
                "KNOWN-FINDING: property={} {} [signature={} occurrences={}]",
                self.id, k.what, k.signature, n
            );
        }
        let replay_dir = root.join("replays").join(&self.id);
        // replays of earlier runs of the same tier are stale once this run has finished
        if let Ok(rd) = std::fs::read_dir(&replay_dir) {
            for e in rd.flatten() {
                if e.file_name().to_string_lossy().starts_with(&format!("{}-", self.tier)) {
                    let _ = std::fs::remove_file(e.path());
                }
            }
        }
        let mut violation_count: u64 = 0;
        let mut replay_paths = Vec::new();
        if !unlisted.is_empty() {
            let _ = std::fs::create_dir_all(&replay_dir);
        }
        for (n, (sig, class)) in unlisted.iter().enumerate() {
            violation_count += class.count;
            if n >= 40 {
                continue;
            }
            let mut name = String::new();
            for ch in sig.chars() {
                if ch.is_ascii_alphanumeric() || ch == '-' || ch == '_' {
                    name.push(ch)
                } else {
                    name.push('_')
                }
            }
            name.truncate(80);
            let path = replay_dir.join(format!("{}-{:02}-{}.json", self.tier, n, name));
            let body = json!({
                "property": self.id,
                "signature": sig,
                "what": class.what,
                "occurrences": class.count,
                "cases": class.examples,
            });
            if let Err(e) = std::fs::write(&path, serde_json::to_string_pretty(&body).unwrap()) {
                machinery_failure(&format!("cannot write replay {}: {e}", path.display()));
            }
            println!(
                "VIOLATION property={} replay={} ({}; {} occurrences; signature={})",
                self.id,
                path.display(),
                class.what,
                class.count,
                sig
            );
            replay_paths.push(path.display().to_string());
        }

        // evidence
        let wall = self.start.elapsed().as_secs_f64();
        let mut cov = Map::new();
        let a = &self.acc;
        cov.insert("evaluations".into(), json!(a.evaluations));
        cov.insert("distinct_nontrivial".into(), json!(a.nontrivial));
        cov.insert("rule".into(), json!(self.rule));
        cov.insert("states".into(), json!(a.states));
        cov.insert("transitions".into(), json!(a.transitions));
        cov.insert("traces_validated_against_impl".into(), json!(a.traces));
        let mut samples = a.samples.clone();
        if samples.is_empty() {
            samples.push(json!("(no sample recorded)"));
        }
        cov.insert("samples".into(), Value::Array(samples));
        cov.insert("exhaustive".into(), json!(self.exhaustive && self.caps.is_empty()));
        cov.insert("bound_completed".into(), json!(self.bound));
        cov.insert("caps_hit".into(), json!(self.caps));
        cov.insert("distinct_outcomes".into(), json!(a.outcomes.len()));
        let mut outc = Map::new();
        for (k, v) in a.outcomes.iter().take(64) {
            outc.insert(k.clone(), json!(v));
        }
        cov.insert("outcome_histogram".into(), Value::Object(outc));
        let mut ctr = Map::new();
        for (k, v) in a.counters.iter() {
            ctr.insert(k.clone(), json!(v));
        }
        cov.insert("counters".into(), Value::Object(ctr));
        cov.insert(
            "known_findings_seen".into(),
            Value::Array(
                listed
                    .iter()
                    .map(|(k, n)| json!({"signature": k.signature, "occurrences": n}))
                    .collect(),
            ),
        );
        cov.insert("violation_replays".into(), json!(replay_paths));
        for (k, v) in self.extra.iter() {
            cov.insert(k.clone(), v.clone());
        }
        let ev = json!({
            "property_id": self.id,
            "tier": self.tier,
            "seed": self.seed,
            "level": "model_checking",
            "coverage": Value::Object(cov),
            "assumptions": self.assumptions,
            "wall_s": wall,
            "violations": violation_count,
        });
        let evdir = root.join("evidence");
        let _ = std::fs::create_dir_all(&evdir);
        let evpath = evdir.join(format!("{}.json", self.id));
        if let Err(e) = std::fs::write(&evpath, serde_json::to_string_pretty(&ev).unwrap()) {
            machinery_failure(&format!("cannot write evidence {}: {e}", evpath.display()));
        }
        let mut line = String::new();
        let _ = write!(
            line,
            "SUMMARY property={} tier={} evaluations={} nontrivial={} states={} transitions={} outcomes={} known={} violations={} wall={:.1}s exhaustive={}",
            self.id,
            self.tier,
            a.evaluations,
            a.nontrivial,
            a.states,
            a.transitions,
            a.outcomes.len(),
            listed.len(),
            violation_count,
            wall,
            self.exhaustive && self.caps.is_empty()
        );
        println!("{line}");
        if violation_count > 0 {
            std::process::exit(1)
        }
        std::process::exit(0)
    }
}

/// Runs `f(shard)` for every shard in `0..shards` on `threads` OS threads and merges the
/// accumulators. Shards are handed out through an atomic counter, so the union is complete
/// whatever the speed of the individual threads.
pub fn par_shards<F>(shards: usize, threads: usize, f: F) -> Acc
where
    F: Fn(usize, &mut Acc) + Sync,
{
    use std::sync::atomic::{AtomicUsize, Ordering};
    let next = AtomicUsize::new(0);
    let mut total = Acc::new();
    let results: Vec<Acc> = std::thread::scope(|s| {
        let handles: Vec<_> = (0..threads.max(1))
            .map(|_| {
                s.spawn(|| {
                    let mut acc = Acc::new();
                    loop {
                        let i = next.fetch_add(1, Ordering::Relaxed);
                        if i >= shards {
                            break;
                        }
                        // a panic that escapes the check's own handling (a library call the check
                        // did not wrap, or a library result the check's model deems impossible) is
                        // a verdict about the tree under test, not the end of the run
                        let r = std::panic::catch_unwind(std::panic::AssertUnwindSafe(|| f(i, &mut acc)));
                        if let Err(p) = r {
                            let msg = p.downcast_ref::<&str>().map(|s| s.to_string()).or_else(|| p.downcast_ref::<String>().cloned()).unwrap_or_else(|| "panic".into());
                            acc.violation("*/uncaught_panic", "a panic escaped while a shard of cases was being evaluated", || json!({"shard": i, "panic": msg.chars().take(300).collect::<String>()}));
                        }
                    }
                    acc
                })
            })
            .collect();
        handles
            .into_iter()
            .map(|h| match h.join() {
                Ok(a) => a,
                Err(_) => machinery_failure("a worker thread of the enumerator panicked"),
            })
            .collect()
    });
    for r in results {
        total.merge(r);
    }
    total
}

pub fn threads() -> usize {
    std::env::var("VERIF_THREADS")
        .ok()
        .and_then(|s| s.parse().ok())
        .unwrap_or_else(|| {
            std::thread::available_parallelism()
                .map(|n| n.get())
                .unwrap_or(4)
                .min(16)
        })
}

/// Formats a char sequence for samples/replays: printable text plus the code points.
pub fn show(chars: &[char]) -> Value {
    let s: String = chars.iter().collect();
    let cps: Vec<String> = chars.iter().map(|c| format!("U+{:04X}", *c as u32)).collect();
    json!({"text": s, "cps": cps})
}

pub fn parse_cps(v: &Value) -> Vec<char> {
    v["cps"]
        .as_array()
        .map(|a| {
            a.iter()
                .filter_map(|s| {
                    let s = s.as_str()?;
                    u32::from_str_radix(s.trim_start_matches("U+"), 16)
                        .ok()
                        .and_then(char::from_u32)
                })
                .collect()
        })
        .unwrap_or_default()
}
