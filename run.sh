#!/usr/bin/env bash
# Entry point of the verification machinery.
#   ./run.sh setup                     build every harness binary (offline)
#   ./run.sh check <id> <quick|thorough>
#   ./run.sh replay <id> <file>
# exit 0 = property held on everything explored; 1 = VIOLATION; 2 = machinery failure.
set -u
ROOT="$(cd "$(dirname "${BASH_SOURCE[0]}")" && pwd)"
export VERIF_ROOT="$ROOT"
export CARGO_NET_OFFLINE=true
export CARGO_TARGET_DIR="${VERIF_TARGET_DIR:-$ROOT/target}"
cd "$ROOT"

engine_of() {
  case "$1" in
    C01|C02|C03|C04|C05|C10|C14|C15|C16|C17) echo e1 ;;
    C11|C18) echo e1 ;;
    C06|C07|C12|C13|C19|C20) echo e1 ;;
    C08|C09) echo e3 ;;
    *) echo none ;;
  esac
}

build_e3() {
  local tdir="${CARGO_TARGET_DIR}-loom"
  local log="$tdir/build-e3.log"
  mkdir -p "$tdir"
  if ! (cd "$ROOT/e3" && CARGO_TARGET_DIR="$tdir" cargo build --release --offline >"$log" 2>&1); then
    echo "MACHINERY-FAILURE: build of e3 failed (see $log)"; tail -n 40 "$log"; return 2
  fi
}

build_pkg() { # $1 = package
  if [ "$1" = e3 ]; then build_e3; return $?; fi
  local log="$CARGO_TARGET_DIR/build-$1.log"
  mkdir -p "$CARGO_TARGET_DIR"
  if ! (cd "$ROOT/harness" && cargo build --release --offline -p "$1" >"$log" 2>&1); then
    echo "MACHINERY-FAILURE: build of $1 failed (see $log)"; tail -n 40 "$log"; return 2
  fi
}

cmd="${1:-}"
case "$cmd" in
  setup)
    for p in e1 e3; do build_pkg "$p" || exit 2; done
    echo "setup ok"; exit 0 ;;
  check)
    id="${2:?property id}"; tier="${3:-quick}"
    eng="$(engine_of "$id")"
    [ "$eng" = none ] && { echo "MACHINERY-FAILURE: unknown property $id"; exit 2; }
    build_pkg "$eng" || exit 2
    # C08 also runs the sequential content oracle, C09 the scheduler monitors of the enumeration binary
    if [ "$id" = C08 ] || [ "$id" = C09 ]; then build_pkg e1 || exit 2; export VERIF_E1_BIN="$CARGO_TARGET_DIR/release/e1"; fi
    # C11 also runs the loom bodies with drop accounting
    if [ "$id" = C11 ]; then build_pkg e3 || exit 2; export VERIF_E3_BIN="${CARGO_TARGET_DIR}-loom/release/e3"; fi
    export VERIF_TIER="$tier"
    if [ "$id" = C16 ]; then
      export VERIF_UNICODE_REF="$CARGO_TARGET_DIR/unicode_ref.txt"
      python3 "$ROOT/tools/gen_unicode_ref.py" > "$VERIF_UNICODE_REF" || { echo "MACHINERY-FAILURE: gen_unicode_ref.py failed"; exit 2; }
    fi
    bin="$CARGO_TARGET_DIR/release/$eng"
    [ "$eng" = e3 ] && bin="${CARGO_TARGET_DIR}-loom/release/e3"
    "$bin" "$id" "$tier"
    exit $? ;;
  replay)
    id="${2:?property id}"; file="${3:?replay file}"
    eng="$(engine_of "$id")"
    # sequential-history cases of C08 are replayed by the enumeration binary
    case "$file" in *C08_seq_*) eng=e1 ;; *C11_loom_*) eng=e3 ;; esac
    build_pkg "$eng" || exit 2
    if [ "$id" = C16 ]; then
      export VERIF_UNICODE_REF="$CARGO_TARGET_DIR/unicode_ref.txt"
      python3 "$ROOT/tools/gen_unicode_ref.py" > "$VERIF_UNICODE_REF" || { echo "MACHINERY-FAILURE: gen_unicode_ref.py failed"; exit 2; }
    fi
    bin="$CARGO_TARGET_DIR/release/$eng"
    [ "$eng" = e3 ] && bin="${CARGO_TARGET_DIR}-loom/release/e3"
    "$bin" replay "$id" "$file"
    exit $? ;;
  *)
    echo "usage: $0 setup | check <id> <quick|thorough> | replay <id> <file>"; exit 2 ;;
esac
